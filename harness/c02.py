"""C02 — cross-validation integrity: no PSM is scored by a model that saw its spectrum."""
from __future__ import annotations

import json
from zlib import crc32

import numpy as np

import common
import mkdata
import pipeline as P
import recest
from common import a_int, a_str, deep, dec, req

RULE = (
    "case = (1-3 PSM tables with spectrum multiplicities 1..5 and spectrum keys of 1-4 columns, folds 2..6, "
    "training cap absent/present, max_workers 1..8, read/predict chunk sizes 1..n+1, seed, text/Parquet); the real "
    "brew() is run with a recording estimator passed through the public Model API; folds, training sets and routing "
    "are recovered from the recorded calls and the returned scores; the training sets are also compared with the "
    "model of make_train_sets (ValueError of rng.choice <=> model reject), the whole run with the model `brewRun`, "
    "the spectrum clauses are re-stated on the real key tuples, and on a sample of the runs brew() is called again "
    "with the returned models (permuted / one missing / one untrained, other seed and chunk size); "
    "distinct = distinct (hash vector structure, folds, cap, sizes); non-trivial = some spectrum has >= 2 PSMs"
)


def gen_case(rng):
    nfiles = rng.choice([1, 1, 1, 2, 3])
    case = dict(
        nfiles=nfiles,
        n_spectra=[rng.choice([12, 20, 35, 60, 90]) for _ in range(nfiles)],
        max_per=rng.choice([1, 2, 3, 5]),
        optional=rng.choice([(), ("ExpMass",), ("filename", "ExpMass"), ("filename", "ExpMass", "ret_time")]),
        folds=rng.choice([2, 2, 3, 3, 4, 5, 6]),
        cap=rng.choice([None, None, "small", "mid", "big"]),
        workers=rng.choice([1, 1, 2, 4, 8]),
        cread=rng.choice([1, 3, 7, "n-1", "n", "n+1", 200000]),
        cpred=rng.choice([1, 2, 5, "n-1", "n", "n+1", 700000]),
        fmt=rng.choice(["pin", "parquet"]),
        seed=rng.randrange(1000),
        data_seed=rng.randrange(1 << 30),
        few_spectra=rng.random() < 0.1,
    )
    if case["few_spectra"]:
        case["n_spectra"] = [rng.choice([2, 3, 4]) for _ in range(nfiles)]
        case["max_per"] = 5
    # second call of brew() with the models of the first (None = not made)
    case["rescore"] = rng.choice([None, None, None, None, None, "perm", "perm", "same", "missing", "extra", "untrained"])
    case["seed2"] = rng.randrange(1000)
    # (chunks of one or two rows are exercised by the first call; they make a call several times slower)
    case["cpred2"] = rng.choice([3, 5, "n-1", "n", "n+1", 700000])
    return case


def spectrum_hashes(ds):
    """the hash vector of `_split`, computed with the same expression (dataset.py:653-661)"""
    spectra = ds.spectra_dataframe[ds.spectrum_columns].values
    return [crc32(str(tuple(x[:2])).encode()) for x in spectra]


def csize(v, n):
    return {"n-1": max(1, n - 1), "n": n, "n+1": n + 1}.get(v, v)


def run_case(chk, case):
    import random
    import mokapot

    r = random.Random(case["data_seed"])
    with P.workdir() as d:
        tabs, dss, offs, paths = [], [], [], []
        off = 0
        for k in range(case["nfiles"]):
            df = mkdata.make_psm_table(r, n_spectra=case["n_spectra"][k], max_per_spectrum=case["max_per"], n_feat=2,
                                       label_enc="pm1", optional=case["optional"], signal=4.0)
            df["rowid"] = np.arange(off, off + len(df))
            df["SpecId"] = [f"f{k}_{i}" for i in range(len(df))]
            offs.append(off)
            off += len(df)
            tabs.append(df)
            p = mkdata.write_table(df, d / f"in{k}.{case['fmt']}", row_group_size=r.choice([None, 7, 50]))
            dss.append(mkdata.read_dataset(p))
            paths.append(p)
        ntot = off
        hashes = [spectrum_hashes(ds) for ds in dss]
        spectra = [[tuple(x) for x in ds.spectra_dataframe[ds.spectrum_columns].values] for ds in dss]
        train_total = ntot  # rough size for the cap choices
        cap = {None: None, "small": max(2 * case["nfiles"], ntot // 6), "mid": ntot // 2, "big": 10 * ntot}[case["cap"]]
        run = recest.new_run()
        est = recest.TagProba(run=run)
        model = mokapot.Model(est, scaler="as-is", train_fdr=0.5, max_iter=2, override=True, rng=case["seed"])
        nmax = max(len(t) for t in tabs)
        try:
            with P.chunk_sizes(read_all=csize(case["cread"], nmax), predict=csize(case["cpred"], nmax)):
                _, models, scores, descs = mokapot.brew(dss, model, test_fdr=0.5, folds=case["folds"],
                                                        max_workers=case["workers"], rng=case["seed"],
                                                        subset_max_train=cap)
            outcome = "ok"
        except IndexError:
            outcome = "reject-index"
        except ValueError as e:
            if "Cannot take a larger sample" in str(e):
                chk.reject("cap-larger-than-file-share")
                check_choice_reject(chk, case, hashes, [len(t) for t in tabs], cap, nmax)
                return
            if "PSMs were detected" in str(e) or "PSMs were available" in str(e):
                chk.reject("training-set-without-targets-or-decoys")
                return
            if "need at least one array" in str(e):
                # a fold without any PSM (fewer spectrum groups than folds): the model's split has an empty fold too
                resp = common.driver_batch([req("split", case["folds"], h) for h in hashes])
                if any("[]" in r_.replace(" ", "") or r_.strip() == "reject-index" for r_ in resp):
                    chk.reject("empty-fold-too-few-spectrum-groups")
                    return
            chk.spec_violation("exception:ValueError", dict(case=case, error=str(e)[:300], clause="brew raised"))
            return
        except RuntimeError as e:
            chk.reject("training-failed:" + str(e)[:40])
            return
        # model side of the fold computation
        resp = common.driver_batch([req("split", case["folds"], h) for h in hashes])
        model_reject = any(x.strip() == "reject-index" for x in resp)
        chk.count("outcome", outcome)
        chk.count("folds", case["folds"]); chk.count("nfiles", case["nfiles"]); chk.count("cap", str(case["cap"]))
        chk.count("workers", case["workers"]); chk.count("keycols", len(dss[0].spectrum_columns))
        chk.count("cread", str(case["cread"])); chk.count("cpred", str(case["cpred"]))
        multi = any(len(set(s)) < len(s) for s in spectra)
        key = (tuple(tuple(np.unique(h, return_inverse=True)[1].tolist()) for h in hashes), case["folds"],
               str(case["cap"]), case["seed"]) if multi else None
        if outcome == "reject-index":
            chk.case(None, key, sample=dict(case={k: str(v) for k, v in case.items()}, outcome=outcome))
            if model_reject:
                chk.reject("too-few-spectrum-groups-for-folds")
                rr = common.driver_batch([req("brewrun", case["folds"], cap_arg(cap), csize(case["cread"], nmax),
                                              csize(case["cpred"], nmax), hashes)])[0].strip()
                chk.count("brewrun", "reject")
                if rr != "reject":
                    chk.corr_break("brewrun", dict(case=case, impl="IndexError", model=rr[:200], hashes=hashes))
            else:
                chk.corr_break("split", dict(case=case, impl="IndexError", model="folds", hashes=hashes))
            return
        if model_reject:
            chk.corr_break("split", dict(case=case, impl="folds", model="reject-index", hashes=hashes))
            return
        # ---- recover what the real run did
        if not all(m.is_trained for m in models):
            chk.reject("training-failed-zero-scores")     # brew returns all-zero scores then (C07's territory)
            return
        tags = [m.estimator.tag_ for m in models]
        problems = []
        if [m.fold for m in models] != list(range(1, case["folds"] + 1)):
            problems.append("models-not-in-fold-order")
        if len(set(tags)) != len(tags):
            problems.append("model-instances-shared")
        fold_of_tag = {t: f for f, t in enumerate(tags)}
        impl_folds, impl_routing, impl_trains = [], [], []
        for k, (df, sc) in enumerate(zip(tabs, scores)):
            sc = np.asarray(sc, dtype=np.int64).ravel()
            if len(sc) != len(df):
                problems.append("score-count")
                break
            tag = sc % recest.TAGMOD
            feat = sc // recest.TAGMOD
            if not np.array_equal(feat, df["feat0"].values.astype(np.int64)):
                problems.append("score-not-of-own-row")
            if any(int(t) not in fold_of_tag for t in tag):
                problems.append("scored-by-unknown-model")
                break
            routing = [fold_of_tag[int(t)] for t in tag]
            impl_routing.append(routing)
            impl_folds.append([[i for i, f in enumerate(routing) if f == g] for g in range(case["folds"])])
        if "score-count" in problems or "scored-by-unknown-model" in problems:
            chk.spec_violation("scores", dict(case=case, clause=problems[0]))
            return
        train_ids = []
        for f, t in enumerate(tags):
            ids = recest.training_rows(run, t)
            train_ids.append(ids or [])
        for k in range(case["nfiles"]):
            lo, hi = offs[k], offs[k] + len(tabs[k])
            impl_trains.append([[i - lo for i in train_ids[f] if lo <= i < hi] for f in range(case["folds"])])
        reqs = []
        for k in range(case["nfiles"]):
            reqs.append(req("brewspec", case["folds"], hashes[k], impl_folds[k], impl_trains[k], cap is not None,
                            impl_routing[k]))
        # expected sizes under the cap
        sizes = [[len(tabs[k]) - len(impl_folds[k][f]) for k in range(case["nfiles"])] for f in range(case["folds"])]
        if cap is not None:
            reqs.append(req("caps", cap, case["nfiles"], sizes))
        resp2 = common.driver_batch(reqs)
        for k in range(case["nfiles"]):
            failed = deep(a_str, dec(resp2[k]))
            failed = failed if isinstance(failed, list) else [failed]
            problems += [f"file{k}:{c}" for c in failed if c]
        if cap is not None:
            exp_sizes = deep(a_int, dec(resp2[-1]))
            got_sizes = [[len(impl_trains[k][f]) for k in range(case["nfiles"])] for f in range(case["folds"])]
            if got_sizes != exp_sizes:
                problems.append(f"cap-sizes got={got_sizes} expected={exp_sizes}")
        # estimator.fit must only ever see training rows
        for kind, t, ids, _y in recest.log(run):
            if kind == "fit" and t in fold_of_tag:
                if not set(ids) <= set(train_ids[fold_of_tag[t]]):
                    problems.append("estimator-fit-on-rows-outside-training-set")
                    break
        # the spectrum clauses re-stated on the real key tuples (independent of the hash expression)
        problems += key_level_problems(case, spectra, impl_routing, impl_folds, impl_trains)
        # model comparison: fold membership (as sets) is determined by the hashes
        model_ok = True
        for k in range(case["nfiles"]):
            mf = sorted(sorted(int(x) for x in fold) for fold in _as_lists(dec(resp[k])))
            if mf != sorted(sorted(f) for f in impl_folds[k]):
                model_ok = False
        chk.case(None, key, sample=dict(case={k: str(v) for k, v in case.items()}, outcome=outcome,
                                        fold_sizes=[[len(f) for f in fs] for fs in impl_folds]))
        info = dict(case=case, problems=problems[:6], hashes=hashes if ntot < 80 else "omitted",
                    impl_folds=impl_folds if ntot < 80 else "omitted")
        if problems:
            chk.spec_violation("cv-integrity:" + problems[0].split(" ")[0].split(":")[-1], dict(info, clause=problems[0]))
        elif not model_ok:
            chk.corr_break("split", info)
        if problems or not model_ok:
            return
        # ---- model of make_train_sets and of the whole run
        compare_train_model(chk, case, info, hashes, [len(t) for t in tabs], cap, nmax, impl_folds, impl_trains,
                            impl_routing, train_ids)
        # ---- brew() again with the models just returned
        rescore(chk, case, info, paths, run, models, scores, fold_of_tag, hashes, impl_trains, cap, nmax)


def cap_arg(cap):
    """the cap on the wire: [] = absent, [c] = present"""
    return [] if cap is None else [int(cap)]


def key_level_problems(case, spectra, impl_routing, impl_folds, impl_trains):
    """C02 clauses on the spectrum-key tuples themselves: PSMs with the same key share a fold; no training row
    has the key of a row of the held-out fold (same collection)"""
    out = []
    for k in range(case["nfiles"]):
        keys = spectra[k]
        first = {}
        for i, key_ in enumerate(keys):
            if first.setdefault(key_, impl_routing[k][i]) != impl_routing[k][i]:
                out.append(f"file{k}:spectrum-split-across-folds(key)")
                break
        for f in range(case["folds"]):
            held = {keys[i] for i in impl_folds[k][f]}
            if any(keys[i] in held for i in impl_trains[k][f] if 0 <= i < len(keys)):
                out.append(f"file{k}:training-row-shares-spectrum-with-held-out-fold(key)")
                break
    return out


def check_choice_reject(chk, case, hashes, sizes, cap, nmax):
    """brew raised the ValueError of rng.choice: the model of make_train_sets (fed with the model's folds, whose
    membership is determined by the hashes) must refuse too, and so must the whole-run model"""
    resp = common.driver_batch([req("split", case["folds"], h) for h in hashes])
    if any(x.strip() == "reject-index" for x in resp):
        chk.corr_break("split", dict(case=case, impl="past _split", model="reject-index", hashes=hashes))
        return
    mfolds = [[[int(x) for x in fold] for fold in _as_lists(dec(r_))] for r_ in resp]
    r = common.driver_batch([
        req("maketrain", cap_arg(cap), sizes, mfolds),
        req("brewrun", case["folds"], cap_arg(cap), csize(case["cread"], nmax), csize(case["cpred"], nmax), hashes)])
    chk.count("maketrain", "reject-choice")
    chk.count("brewrun", "reject")
    if r[0].strip() != "reject-choice":
        chk.corr_break("maketrain", dict(case=case, impl="ValueError(rng.choice)", model=r[0][:300], cap=cap,
                                         sizes=sizes))
    elif r[1].strip() != "reject":
        chk.corr_break("brewrun", dict(case=case, impl="ValueError(rng.choice)", model=r[1][:300]))


def compare_train_model(chk, case, info, hashes, sizes, cap, nmax, impl_folds, impl_trains, impl_routing, train_ids):
    """training sets of the real run vs `makeTrainSets` (per fold and file: everything outside the held-out fold
    without sub-sampling, exactly the file's share with it) and vs the whole-run model `brewRun` (training table of
    every fold model over all files, routing of every row)"""
    nf, folds = case["nfiles"], case["folds"]
    r = common.driver_batch([
        req("maketrain", cap_arg(cap), sizes, impl_folds),
        req("brewrun", folds, cap_arg(cap), csize(case["cread"], nmax), csize(case["cpred"], nmax), hashes)])
    mt = dec(r[0])
    if not isinstance(mt, list):
        chk.count("maketrain", str(mt))
        chk.corr_break("maketrain", dict(info, impl="training sets", model=str(mt)))
        return
    applies, bad = [], None
    for f, ent in enumerate(mt):
        flag, per_file = common.a_bool(ent[0]), ent[1]
        applies.append(flag)
        for k in range(nf):
            m = [int(x) for x in per_file[k]]
            got = impl_trains[k][f]
            ok = (len(got) == len(m)) if flag else (sorted(got) == sorted(m))
            if not ok and bad is None:
                bad = dict(fold=f, file=k, subsampled=flag, impl=got[:50], model=m[:50])
    if len(mt) != folds and bad is None:
        bad = dict(model_folds=len(mt))
    chk.count("maketrain", "ok")
    chk.count("cap-applies", "none" if not any(applies) else ("all-folds" if all(applies) else "some-folds"))
    if bad is not None:
        chk.corr_break("maketrain", dict(info, **bad))
        return
    br = dec(r[1])
    if not isinstance(br, list):
        chk.count("brewrun", str(br))
        chk.corr_break("brewrun", dict(info, impl="scores", model=str(br)))
        return
    chk.count("brewrun", "ok")
    models_m, routing_m = br
    bad = None
    if len(models_m) != folds:
        bad = dict(model_models=len(models_m))
    for f, ent in enumerate(models_m):
        if bad is not None:
            break
        num, rows = int(ent[0]), [int(x) for x in ent[1]]
        got = train_ids[f]
        ok = num == f + 1 and ((len(got) == len(rows)) if applies[f] else (sorted(got) == sorted(rows)))
        if not ok:
            bad = dict(fold=f, model_fold_number=num, subsampled=applies[f], impl=sorted(got)[:50], model=sorted(rows)[:50])
    for k in range(nf):
        if bad is None and [int(x) for x in routing_m[k]] != impl_routing[k]:
            bad = dict(file=k, impl_routing=impl_routing[k][:80], model_routing=[int(x) for x in routing_m[k]][:80])
    if bad is not None:
        chk.corr_break("brewrun", dict(info, **bad))


RESCORE_ERR = {"reject-ValueError": (ValueError, "must match the number of folds"),
               "reject-RuntimeError": (RuntimeError, "not previously trained")}


def rescore(chk, case, info, paths, run, models, scores, fold_of_tag, hashes, impl_trains, cap, nmax):
    """`brew(psms, model=[the models just returned])` in another order / with one missing, one too many or one
    untrained, another seed and prediction chunk size: accepted iff the model `pretrained` accepts; then every
    PSM must again be scored by a model that was trained without its spectrum (training sets of the FIRST run),
    the models come back in fold order and the scores are those of the first run (C02_rescoring_same_scores)"""
    import random
    import mokapot

    kind = case.get("rescore")
    if not kind:
        return
    folds = case["folds"]
    r2 = random.Random(case["data_seed"] + 7)
    given = list(models)
    if kind != "same":
        r2.shuffle(given)
    if kind == "missing":
        given = given[:-1]
    elif kind == "extra":
        given = given + [given[0]]
    elif kind == "untrained":
        j = r2.randrange(len(given))
        fresh = mokapot.Model(recest.TagProba(run=run), scaler="as-is", train_fdr=0.5, max_iter=2, override=True, rng=0)
        fresh.fold = given[j].fold
        given[j] = fresh
    chk.count("rescore", kind)
    exp = dec(common.driver_batch([req("pretrained", folds, [int(m.fold) for m in given],
                                       [bool(m.is_trained) for m in given])])[0])
    dss2 = [mkdata.read_dataset(p) for p in paths]
    try:
        with P.chunk_sizes(predict=csize(case["cpred2"], nmax)):
            _, models2, scores2, _ = mokapot.brew(dss2, given, test_fdr=0.5, folds=folds,
                                                  max_workers=case["workers"], rng=case["seed2"])
        got = "ok"
    except (ValueError, RuntimeError) as e:
        got = None
        for name, (cls, msg) in RESCORE_ERR.items():
            if type(e) is cls and msg in str(e):
                got = name
        if got is None:
            chk.spec_violation("exception:rescore-" + type(e).__name__,
                               dict(info, error=str(e)[:300], clause="brew with the returned models raised"))
            return
    chk.count("rescore-outcome", got)
    info = dict(info, rescore=kind, given_folds=[int(m.fold) for m in given])
    if not isinstance(exp, list):
        if got != exp:
            chk.corr_break("pretrained", dict(info, impl=got, model=exp))
        return
    if got != "ok":
        chk.corr_break("pretrained", dict(info, impl=got, model="accepted"))
        return
    # the property on the second run: routing by the identity (tag) of the scoring model, training sets of run 1
    problems = []
    if [m.fold for m in models2] != list(range(1, folds + 1)):
        problems.append("rescore-models-not-in-fold-order")
    reqs, routings2 = [], []
    for k, sc in enumerate(scores2):
        sc = np.asarray(sc, dtype=np.int64).ravel()
        tag = sc % recest.TAGMOD
        if len(sc) != len(hashes[k]) or any(int(t) not in fold_of_tag for t in tag):
            chk.spec_violation("scores", dict(info, clause="rescore: score-count / scored-by-unknown-model"))
            return
        routing = [fold_of_tag[int(t)] for t in tag]
        routings2.append(routing)
        folds2 = [[i for i, f in enumerate(routing) if f == g] for g in range(folds)]
        reqs.append(req("brewspec", folds, hashes[k], folds2, impl_trains[k], cap is not None, routing))
    for k, r_ in enumerate(common.driver_batch(reqs)):
        failed = deep(a_str, dec(r_))
        failed = failed if isinstance(failed, list) else [failed]
        problems += [f"file{k}:rescore-{c}" for c in failed if c]
    if problems:
        chk.spec_violation("cv-integrity:" + problems[0].split(":")[-1], dict(info, problems=problems[:6], clause=problems[0]))
        return
    order_ok = [given[int(p_)].estimator.tag_ for p_ in exp] == [m.estimator.tag_ for m in models2]
    same = all(np.array_equal(np.asarray(a).ravel(), np.asarray(b).ravel()) for a, b in zip(scores, scores2))
    if not order_ok:
        chk.corr_break("pretrained", dict(info, impl=[m.estimator.tag_ for m in models2], model=exp))
    elif not same:
        chk.corr_break("rescore", dict(info, impl="scores differ from the first run"))


def _as_lists(v):
    if isinstance(v, list):
        return [x if isinstance(x, list) else [x] for x in v]
    return [[v]]


def predict_sweep(chk):
    """pure model/spec sweep of the prediction routing for all chunk sizes (model side sanity, cheap)"""
    reqs, exp = [], []
    for n in range(1, 7):
        for routing in ([i % 2 for i in range(n)], [0] * n, [(i * 7) % 3 for i in range(n)]):
            for c in range(1, n + 2):
                reqs.append(req("predictid", c, 3, routing))
                exp.append([f * 1000000 + p for p, f in enumerate(routing)])
    for r, e in zip(common.driver_batch(reqs), exp):
        got = deep(a_int, dec(r))
        got = got if isinstance(got, list) else [got]
        if got != e:
            chk.corr_break("predictid", dict(got=got, expected=e))


def search(chk):
    for _ in range(40 * chk.budget_mult):
        c = gen_case(chk.rng)
        c["max_per"] = 5
        run_case(chk, c)
        if chk.spec_violations:
            return


def main(chk, args):
    build = common.build_and_audit("C02", extra_targets=["MokapotVerif.Mutants.Brew"])
    if not build.driver_ok:
        chk.finish(build, RULE)
    predict_sweep(chk)
    n = chk.scale(40 if chk.tier == "quick" else 400)
    for _ in range(n):
        run_case(chk, gen_case(chk.rng))
    lc = None
    if chk.tier == "thorough":
        lcs = [common.leanchecker("C02"), common.leanchecker("C02Multi")]
        lc = (all(x[0] for x in lcs), "\n".join(x[1] for x in lcs))
    chk.assumptions += [
        "the recording estimator observes the rows handed to Model.fit through the first scoring call of the "
        "training loop; which model scored a row is read from the low bits of the returned score",
        "crc32 hashes are computed by the harness with the expression of dataset.py:653-661 on the dataset's "
        "spectra_dataframe and handed to the model; zlib.crc32, numpy argsort/unique/searchsorted/split are trusted",
        "joblib returns task results in submission order; list.append is atomic under the GIL",
        "re-scoring: which model scored a row in the second brew() call is read from the score tag of the model "
        "instance (assigned at its first fit in the first call); its training rows are those logged in the first call",
        "the 5 000 000-row inner loop of make_train_sets is proved equal to the one-step complement "
        "(C02_train_loop_eq_complement) but not driven (no dataset of that size is generated)",
    ]
    chk.finish(build, RULE, search=search, lc=lc,
               trusted_extra=["numpy argsort/unique/searchsorted/split/Generator, joblib, pandas concat/reindex"])


def replay(chk, path):
    info = json.loads(open(path).read())
    case = info.get("case")
    if not isinstance(case, dict) or "folds" not in case:
        print(json.dumps(info, indent=1)[:3000])
        return 0
    common.build_and_audit("C02")
    case["optional"] = tuple(case["optional"])
    run_case(chk, case)
    for sig, i in chk.spec_violations:
        print("REPRODUCED", sig, i.get("clause"))
    return 1 if chk.spec_violations else 0
