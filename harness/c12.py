"""C12 — Training feeds the estimator rows and labels of the same PSM, in any order.

Observed at the public API only: `mokapot.Model(...).fit(psms)` / `.predict(psms)` on a
`LinearPsmDataset`, `save_model` / `load_model`.  The estimator is a recording, deterministic
sklearn-style estimator (`RecEst*`, survives `sklearn.clone` and `pickle`); feature column 0 is a
smuggled PSM id that never receives a weight, the scaler is "as-is".

Three independent evaluations per run:
  impl   the real code (recorded `fit` / scoring calls, outcome, learned weights, predictions)
  spec   a direct re-statement in this file, by PSM id: rows unchanged, negatives = all decoys,
         positives = targets whose defining-formula q-value under the scores the estimator itself
         just returned for them is <= train_fdr; invariance of outcome/weights/predictions over input
         row order, shuffle switch and seed; prediction by name; save/load identity; fit-call count
  model  the compiled Lean model (`fitmodel`, cross-checked against `fitspec`, `predictbyname`, `argsort`;
         `fitcv` / `cvexamples` for the hyper-parameter search step; `getscores` for `_get_scores`;
         `predictscaled` for `Model.decision_function` with a positional scaler and the is_trained guard;
         second pass: `fitfull` = `Model.fit` from the DataFrame (feature list, stored names, fitted scaler, direction
         by name), `predictfull` = prediction of the trained object on another presentation of a table;
         third pass: `storerun` = a session of save_model / Model.save / foreign writes / load_model on re-used file
         names (Model/FitStore.lean), `storespec` = its last-write-wins specification)
"""
from __future__ import annotations

import itertools
import json
import logging
import tempfile
from fractions import Fraction
from pathlib import Path

import numpy as np
import pandas as pd
from sklearn.base import BaseEstimator

import common
from common import Atom, a_bool, a_rat, dec, req

logging.getLogger("mokapot").setLevel(logging.CRITICAL)

RULE = (
    "case = (PSM table with integer features and a smuggled id column, estimator kind x scoring API, train_fdr, "
    "max_iter 1..10, override, direction, a list of variants (input row order, shuffle switch, seed)); every variant "
    "is one Model.fit run + predictions with permuted feature columns + save/load round trip; distinct = distinct "
    "(table, estimator, settings, variant); non-trivial = at least two fit calls were made or shuffling was on with a "
    "non-identity permutation; thorough adds the exhaustive sweep over all tables with n<=4 rows (feature values "
    "0..2, every target/decoy labelling), every permutation of the rows as the shuffle draw, shuffle on/off, "
    "max_iter 1..3, with the order-sensitive estimator; plus: tables of 230-450 rows; scoring-API cases (an estimator "
    "per output form of decision_function / predict_proba: vector, 1/2/3 columns, nested list, both methods, 3 axes, "
    "no column) with predictions on all rows, permuted rows, a subset and a single row; predictions through a "
    "data-dependent positional scaler with permuted columns / other name sets / an untrained model; every re-fit run "
    "twice (other shuffle switch, seed, row order) with `direction` set; load_model on a Percolator weights file; "
    "second pass: dataset-level cases (feature_columns given as an ordered subset or inferred, any physical column "
    "order with metadata columns between the features and unused columns, index labels range / reversed / duplicated "
    "/ strings, feature dtypes float64 / float32 / int64 / int32 per column or per block, bool / 0-1 target column, "
    "int seed or Generator, as-is or data-dependent scaler, direction by name incl. a non-feature) = two presentations "
    "of one table + predictions of the trained and of the re-loaded object on a third presentation; re-fits on a "
    "table of other PSMs (other size, ids, feature location) and of a saved / re-loaded model; a second fit of every "
    "model of the hyper-parameter-search runs; float32 and integer decision values; third pass: sessions of 5-15 "
    "operations on 2-3 Model objects (trained / untrained / re-fitted in place, also failing half-way) and 1-3 re-used "
    "file names in two spellings: save_model / Model.save, load_model (loaded objects adopted and re-saved), foreign "
    "contents (weights table, text line, empty, non-pickle bytes), missing files; every load must return the state "
    "saved last under that name, objects in hand must keep their state; non-trivial = at least two loads, one of a model"
)

PROBA_SHIFT = 2 ** 44
RECORDS: dict[int, list] = {}
_NEXT_LOG = [0]


# ----------------------------------------------------------------------------
# recording deterministic estimators (mirrored by lean/MokapotVerif/Ops/Fit.lean)
# ----------------------------------------------------------------------------
def _ints(X):
    A = np.asarray(X)
    R = np.rint(A)
    if not np.array_equal(A, R):
        raise AssertionError("estimator received non-integer features")
    return [[int(v) for v in row] for row in R]


def centroid(rows, ys, dim):
    pos = [r for r, y in zip(rows, ys) if y]
    neg = [r for r, y in zip(rows, ys) if not y]
    sp = [sum(r[j] for r in pos) for j in range(dim)]
    sn = [sum(r[j] for r in neg) for j in range(dim)]
    w = [len(neg) * sp[j] - len(pos) * sn[j] for j in range(dim)]
    w[0] = 0
    return w


def pos_weighted(rows, ys, dim):
    w = [0] * dim
    for k, (r, y) in enumerate(zip(rows, ys)):
        c = (1 if y else -1) * (k + 1)
        for j in range(dim):
            w[j] += c * r[j]
    w[0] = 0
    return w


class _RecBase(BaseEstimator):
    """state = integer weight vector `w_`; every call is logged in RECORDS[log_id]"""

    def __init__(self, kind="centroid", log_id=0):
        self.kind = kind
        self.log_id = log_id

    def _log(self, ev):
        RECORDS.setdefault(self.log_id, []).append(ev)

    def fit(self, X, y):
        rows = _ints(X)
        yraw = [float(v) for v in np.asarray(y)]
        ys = [v == 1.0 for v in yraw]
        dim = len(rows[0]) if rows else 0
        prev = getattr(self, "w_", None) or [0] * dim
        if self.kind == "centroid":
            w = centroid(rows, ys, dim)
        elif self.kind == "poswt":
            w = pos_weighted(rows, ys, dim)
        elif self.kind == "warm":
            c = centroid(rows, ys, dim)
            w = [a + b for a, b in zip(prev, c)]
        else:
            raise AssertionError(self.kind)
        self.w_ = w
        self._log(("fit", rows, yraw))
        return self

    def _raw(self, X):
        rows = _ints(X)
        s = [sum(a * b for a, b in zip(self.w_, r)) for r in rows]
        self._log(("score", [r[0] for r in rows], s, rows))
        return s


class RecEstDF(_RecBase):
    def decision_function(self, X):
        return np.array([float(v) for v in self._raw(X)], dtype=float)


def _proba(s):
    assert abs(s) < 2 ** 43
    return 0.5 + s / PROBA_SHIFT


class RecEstPP2(_RecBase):
    """two-column predict_proba (sklearn style)"""

    def predict_proba(self, X):
        p = np.array([_proba(v) for v in self._raw(X)], dtype=float)
        return np.column_stack([1.0 - p, p])


class RecEstPP1(_RecBase):
    """single-column predict_proba (skorch style)"""

    def predict_proba(self, X):
        p = np.array([_proba(v) for v in self._raw(X)], dtype=float)
        return p.reshape(-1, 1)


class RecWrap(BaseEstimator):
    """a real closed-form sklearn classifier behind the recorder; ids are un-scaled from column 0"""

    def __init__(self, inner="ridge", log_id=0, id_mean=0.0, id_std=1.0):
        self.inner = inner
        self.log_id = log_id
        self.id_mean = id_mean
        self.id_std = id_std

    def _ids(self, X):
        return [int(round(v * self.id_std + self.id_mean)) for v in np.asarray(X)[:, 0]]

    def fit(self, X, y):
        from sklearn.discriminant_analysis import LinearDiscriminantAnalysis
        from sklearn.linear_model import RidgeClassifier

        X = np.asarray(X)
        self.est_ = RidgeClassifier(alpha=1.0, solver="cholesky") if self.inner == "ridge" else \
            LinearDiscriminantAnalysis(solver="lsqr")
        self.est_.fit(X[:, 1:], np.asarray(y))
        RECORDS.setdefault(self.log_id, []).append(("fit", self._ids(X), [float(v) for v in np.asarray(y)]))
        return self

    def decision_function(self, X):
        X = np.asarray(X)
        s = self.est_.decision_function(X[:, 1:])
        RECORDS.setdefault(self.log_id, []).append(("score", self._ids(X), [float(v) for v in s]))
        return s


APIS = {"decision": RecEstDF, "proba2": RecEstPP2, "proba1": RecEstPP1}
KINDS = ["centroid", "poswt", "warm"]
INVARIANT_KINDS = ("centroid", "warm")


# ----------------------------------------------------------------------------
# the defining formula, re-stated (exact)
# ----------------------------------------------------------------------------
def qspec_py(scores, targets):
    """q(s) = min(1, min over thresholds t <= s of (decoys>=t + 1) / (targets>=t)), 1 where no target"""
    distinct = sorted(set(scores))
    order = sorted(range(len(scores)), key=lambda i: scores[i], reverse=True)
    T = D = 0
    fdr = {}
    pos = 0
    for t in reversed(distinct):
        while pos < len(order) and scores[order[pos]] >= t:
            if targets[order[pos]]:
                T += 1
            else:
                D += 1
            pos += 1
        fdr[t] = Fraction(D + 1, T) if T else Fraction(1)
    q = {}
    run = Fraction(1)
    for t in distinct:
        run = min(run, fdr[t])
        q[t] = run
    return [q[s] for s in scores]


def accepted(scores, targets, thr):
    """(set of accepted target indices, boundary flag)"""
    qs = qspec_py(scores, targets)
    boundary = any(t and q == thr and (thr.denominator & (thr.denominator - 1)) for q, t in zip(qs, targets))
    return {i for i, (q, t) in enumerate(zip(qs, targets)) if t and q <= thr}, boundary


# ----------------------------------------------------------------------------
# data
# ----------------------------------------------------------------------------
def gen_table(rng, nmax, big=False):
    n = min(nmax, rng.choice([2, 3, 4, 5, 6, 8, 10, 14, 20, 30, 45, 60, 90, 140]))
    if big:
        n = rng.choice([230, 320, 450])   # beyond the "few PSMs" warning threshold of Model.fit (200 rows)
    nfeat = rng.choice([1, 1, 2, 3, 4])
    pat = rng.choice(["signal", "signal", "signal", "weak", "ties", "inverted"])
    tfrac = rng.choice([0.3, 0.5, 0.5, 0.7])
    targets = [rng.random() < tfrac for _ in range(n)]
    if rng.random() < 0.9 and n >= 2:
        if not any(targets):
            targets[rng.randrange(n)] = True
        if all(targets):
            targets[rng.randrange(n)] = False
    feats = []
    for i in range(n):
        good = targets[i] and rng.random() < 0.65
        row = []
        for j in range(nfeat):
            if pat == "ties":
                v = rng.randint(-2, 2) + (3 if good and j == 0 else 0)
            elif pat == "weak":
                v = rng.randint(-12, 12) + (4 if good and j == 0 else 0)
            elif pat == "inverted":
                v = rng.randint(-12, 12) - (15 if good and j == 0 else 0)
            else:
                v = rng.randint(-12, 12) + (15 if good and j == 0 else 0) + (6 if good and j == 1 else 0)
            row.append(v)
        feats.append(row)
    ids = list(range(n))
    rng.shuffle(ids)          # the id of a PSM is unrelated to anything else
    return dict(ids=ids, feats=feats, targets=targets, pat=pat)


def gen_case(rng, nmax=140, big=False):
    tab = gen_table(rng, nmax, big)
    n = len(tab["ids"])
    kind = rng.choice(KINDS)
    api = rng.choice(["decision", "decision", "proba2", "proba1"])
    pool = [Fraction(x) for x in ["1/2", "1/4", "1/8", "3/4", "1", "3/10", "1/10", "1/20", "1/100", "1/3", "3/8",
                                  "1/5", "1/16"]]
    nt = sum(tab["targets"])
    if rng.random() < 0.9:
        # a threshold that the best feature can meet: (decoys+1)/targets <= thr needs thr >= ~2/targets
        ok = [t for t in pool if t * max(nt, 1) >= 2] or [Fraction(1)]
        thr = rng.choice(ok)
    else:
        thr = rng.choice(pool)
    max_iter = rng.choice([1, 2, 2, 3, 3, 4, 5, 6, 7, 8, 9, 10]) if rng.random() < 0.97 else 0
    if big:
        max_iter = rng.choice([2, 3, 4])
    override = rng.random() < 0.5
    nfeat = len(tab["feats"][0])
    direction = None
    if rng.random() < 0.3:
        direction = rng.randrange(nfeat + 1)  # index into the fit-time feature columns (0 = id column)
    variants = []
    base_order = list(range(n))
    for v in range(rng.choice([2, 3, 4])):
        order = base_order[:]
        if v > 0 and rng.random() < 0.7:
            rng.shuffle(order)
        variants.append(dict(order=order, shuffle=(rng.random() < 0.6), seed=rng.randrange(10 ** 6)))
    if not any(v["shuffle"] for v in variants):
        variants[0]["shuffle"] = True
    if all(v["shuffle"] for v in variants):
        variants[-1]["shuffle"] = False
    return dict(tab=tab, kind=kind, api=api, thr=str(thr), max_iter=max_iter, override=override,
                direction=direction, variants=variants, enforce=(rng.random() < 0.8),
                colseed=rng.randrange(10 ** 6))


def feat_names(nfeat):
    return ["rowid"] + [f"f{j}" for j in range(nfeat)]


def build_psms(tab, order, colnames=None, rename=None):
    import mokapot

    n = len(order)
    nfeat = len(tab["feats"][0])
    names = feat_names(nfeat)
    cols = {
        "target": [tab["targets"][i] for i in order],
        "spec": list(range(n)),
        "pep": [f"PEP{tab['ids'][i]}" for i in order],
        "rowid": [float(tab["ids"][i]) for i in order],
    }
    for j in range(nfeat):
        cols[f"f{j}"] = [float(tab["feats"][i][j]) for i in order]
    colnames = colnames or names
    df = pd.DataFrame({c: cols[c] for c in ["target", "spec", "pep"] + list(colnames)})
    if rename:
        df = df.rename(columns=rename)
    return df


def dataset(df, enforce=True, feature_columns=None):
    import mokapot

    return mokapot.dataset.LinearPsmDataset(df, target_column="target", spectrum_columns="spec",
                                           peptide_column="pep", copy_data=True, enforce_checks=enforce,
                                           feature_columns=feature_columns)


def classify_exc(e):
    msg = str(e)
    if isinstance(e, ValueError) and "No target PSMs" in msg:
        return "reject-notargets"
    if isinstance(e, ValueError) and "No decoy PSMs" in msg:
        return "reject-nodecoys"
    if isinstance(e, ValueError) and "Features of the input data do not match" in msg:
        return "reject-features"
    if isinstance(e, RuntimeError) and ("No PSMs found below" in msg or "No PSMs accepted" in msg):
        return "reject-nostart"
    if isinstance(e, RuntimeError) and "performs worse" in msg:
        return "reject-worse"
    if isinstance(e, IndexError):
        return "reject-zeroiter"
    return "other:" + type(e).__name__ + ":" + msg[:80]


def new_log():
    _NEXT_LOG[0] += 1
    RECORDS[_NEXT_LOG[0]] = []
    return _NEXT_LOG[0]


def run_variant(case, var, cache=None):
    """one Model.fit on the real code; returns the observation record"""
    import mokapot

    tab = case["tab"]
    nfeat = len(tab["feats"][0])
    names = feat_names(nfeat)
    obs = dict(status=None, fits=[], scores=[], weights=None, model=None, error=None, events=[])
    # every third variant names its features explicitly, in the logical order, over a frame whose physical column
    # order is reversed: the features (training matrix, stored names) are the NAMED columns in the order given
    explicit = (sum(var["order"]) + int(var["seed"])) % 3 == 0
    key = (tuple(var["order"]), explicit)
    if cache is not None and key in cache:
        psms = cache[key]
    else:
        try:
            if explicit:
                psms = dataset(build_psms(tab, var["order"], colnames=list(reversed(names))), enforce=case["enforce"],
                               feature_columns=list(names))
            else:
                psms = dataset(build_psms(tab, var["order"]), enforce=case["enforce"])
        except ValueError as e:
            psms = e
        if cache is not None:
            cache[key] = psms
    if isinstance(psms, ValueError):
        obs["status"] = "dataset-reject"
        obs["error"] = str(psms)
        return obs
    log = new_log()
    est = APIS[case["api"]](kind=case["kind"], log_id=log)
    direction = None if case["direction"] is None else names[case["direction"]]
    model = mokapot.Model(est, scaler="as-is", train_fdr=float(Fraction(case["thr"])), max_iter=case["max_iter"],
                          direction=direction, override=case["override"], shuffle=var["shuffle"], rng=var["seed"])
    try:
        model.fit(psms)
        obs["status"] = "ok"
    except Exception as e:  # noqa: BLE001
        obs["status"] = classify_exc(e)
        obs["error"] = repr(e)[:200]
    events = RECORDS.pop(log, [])
    obs["events"] = events
    obs["model"] = model
    obs["psms"] = psms
    if obs["status"] == "ok":
        obs["weights"] = list(model.estimator.w_)
    return obs


def split_events(events):
    """[(fit_rows, fit_y, score_ids, score_vals)] per iteration; the scores are the last scoring call after the fit"""
    its = []
    for ev in events:
        if ev[0] == "fit":
            its.append(dict(rows=ev[1], y=ev[2], sids=None, svals=None, nscore=0))
        elif its:
            its[-1]["sids"], its[-1]["svals"] = ev[1], ev[2]
            its[-1]["nscore"] += 1
    return its


# ----------------------------------------------------------------------------
# the spec, by PSM id
# ----------------------------------------------------------------------------
def spec_check_run(case, var, obs):
    """returns (list of (signature, clause, detail), boundary flag)"""
    tab = case["tab"]
    thr = Fraction(case["thr"])
    ids = tab["ids"]
    n = len(ids)
    by_id = {ids[i]: i for i in range(n)}
    targets = tab["targets"]
    out = []
    boundary = False
    its = split_events(obs["events"])
    nfeat = len(tab["feats"][0])
    cur = None  # PSM index -> current score (Fraction), None before the first fit
    for j in range(nfeat + 1):
        col = [Fraction(ids[i]) if j == 0 else Fraction(tab["feats"][i][j - 1]) for i in range(n)]
        for sign in (1, -1):
            boundary |= accepted([sign * c for c in col], targets, thr)[1]
    for k, it in enumerate(its):
        seen = set()
        lab = {}
        for row, y in zip(it["rows"], it["y"]):
            rid = row[0]
            if rid not in by_id or rid in seen:
                out.append(("rows", "a training row is not one PSM of the dataset, or is repeated", dict(iter=k, id=rid)))
                continue
            seen.add(rid)
            i = by_id[rid]
            if row[1:] != tab["feats"][i]:
                out.append(("rows", "feature row handed to fit differs from the row of the PSM with that id",
                            dict(iter=k, id=rid, got=row[1:], want=tab["feats"][i])))
            if y not in (0.0, 1.0):
                out.append(("classes", "class handed to fit is not 0/1", dict(iter=k, id=rid, y=y)))
            lab[i] = y
        got_neg = {i for i, y in lab.items() if y == 0.0}
        got_pos = {i for i, y in lab.items() if y == 1.0}
        want_neg = {i for i in range(n) if not targets[i]}
        if got_neg != want_neg:
            out.append(("negatives", "negatives are not exactly the decoys",
                        dict(iter=k, extra=sorted(ids[i] for i in got_neg - want_neg),
                             missing=sorted(ids[i] for i in want_neg - got_neg))))
        if k == 0:
            # start labels: accepted targets of some feature column in some direction (which one: C07)
            ok = False
            for j in range(nfeat + 1):
                col = [Fraction(ids[i]) if j == 0 else Fraction(tab["feats"][i][j - 1]) for i in range(n)]
                for sign in (1, -1):
                    acc, b = accepted([sign * c for c in col], targets, thr)
                    boundary |= b
                    if acc == got_pos:
                        ok = True
            if not ok:
                out.append(("positives-start", "first training set: positives are not the accepted targets of any "
                            "feature in any direction", dict(iter=0, got=sorted(ids[i] for i in got_pos))))
        else:
            acc, b = accepted([cur[i] for i in range(n)], targets, thr)
            boundary |= b
            if acc != got_pos:
                out.append(("positives", "positives are not exactly the targets accepted at train_fdr under the "
                            "scores the estimator just gave to those PSMs",
                            dict(iter=k, extra=sorted(ids[i] for i in got_pos - acc),
                                 missing=sorted(ids[i] for i in acc - got_pos))))
        if it["sids"] is not None:
            if sorted(it["sids"]) != sorted(ids):
                out.append(("rows", "scoring call does not cover every PSM once", dict(iter=k)))
                cur = None
                break
            cur = {by_id[r]: Fraction(s) for r, s in zip(it["sids"], it["svals"])}
            boundary |= accepted([cur[i] for i in range(n)], targets, thr)[1]
    if obs["status"] == "ok" and len(its) != case["max_iter"]:
        out.append(("iterations", "number of fit calls differs from max_iter", dict(fits=len(its))))
    if obs["status"] != "ok" and len(its) > case["max_iter"]:
        out.append(("iterations", "more fit calls than max_iter", dict(fits=len(its))))
    return out, boundary


def canon_outcome(case, obs):
    """what must not depend on row order / shuffle / seed for an order-insensitive estimator"""
    ids = case["tab"]["ids"]
    its = split_events(obs["events"])
    return dict(status=obs["status"], weights=obs["weights"],
                trace=[sorted((r[0], y) for r, y in zip(it["rows"], it["y"])) for it in its])


# ----------------------------------------------------------------------------
# model side
# ----------------------------------------------------------------------------
def observed_perm(case, var, obs):
    """positions (in the variant's dataset order) of the rows in the order the estimator was asked to score them"""
    ids = case["tab"]["ids"]
    pos = {ids[i]: p for p, i in enumerate(var["order"])}
    for ev in obs["events"]:
        if ev[0] == "score":
            # (an id the dataset does not hold — e.g. because the estimator was handed other columns than the named
            #  features in the given order — is reported by the caller as "not every PSM exactly once")
            return [pos.get(r, -1) for r in ev[1]]
    return list(range(len(var["order"])))


def fit_request(op, case, var, perm):
    tab = case["tab"]
    rows = [[tab["ids"][i]] + tab["feats"][i] for i in var["order"]]
    targets = [bool(tab["targets"][i]) for i in var["order"]]
    d = [] if case["direction"] is None else [case["direction"]]
    return req(op, Atom(case["kind"]), var["shuffle"], perm, case["max_iter"], Fraction(case["thr"]),
               case["override"], d, rows, targets)


def parse_fit(resp):
    v = dec(resp)
    if not isinstance(v, list) or len(v) != 3:
        return dict(status="driver:" + resp[:60], trace=None, weights=None)
    st = v[0]
    st = "reject-worse" if st in ("reject-worse-iter", "reject-worse-final") else st
    trace = [[(int(a_rat(p[0])), 1.0 if a_bool(p[1]) else 0.0) for p in it] for it in v[1]]
    w = None if v[2] == "none" else [int(a_rat(x)) for x in v[2][0]]
    return dict(status=st, trace=trace, weights=w)


def impl_fit_view(obs):
    its = split_events(obs["events"])
    return dict(status=obs["status"], trace=[[(r[0], y) for r, y in zip(it["rows"], it["y"])] for it in its],
                weights=obs["weights"])


# ----------------------------------------------------------------------------
# prediction by name, save / load
# ----------------------------------------------------------------------------
def predict_checks(chk, case, var, obs, rng, tmp, lines, pending):
    """spec checks now; model requests are appended to `lines` with a continuation in `pending`"""
    import mokapot

    tab = case["tab"]
    model = obs["model"]
    n = len(var["order"])
    nfeat = len(tab["feats"][0])
    names = feat_names(nfeat)
    w = obs["weights"]
    api = case["api"]

    def expect(order):
        out = []
        for i in order:
            s = sum(a * b for a, b in zip(w, [tab["ids"][i]] + tab["feats"][i]))
            out.append(float(s) if api == "decision" else _proba(s))
        return out

    viol = []
    base = [float(x) for x in model.predict(obs["psms"])]
    if base != expect(var["order"]):
        viol.append(("predict", "Model.predict differs from the learned weights applied to each PSM's own features",
                     dict(got=base[:8], want=expect(var["order"])[:8])))
    # permuted feature columns (the id column moves as well), other row order
    crng = np.random.default_rng(case["colseed"])
    for rep in range(2):
        cols = list(names)
        rng.shuffle(cols)
        order = list(var["order"])
        if rep == 1:
            rng.shuffle(order)
        ps2 = dataset(build_psms(tab, order, colnames=cols), enforce=False)
        chk.count("predict_cols", "identity" if cols == names else "permuted")
        try:
            got = [float(x) for x in model.predict(ps2)]
        except Exception as e:  # noqa: BLE001
            viol.append(("predict-by-name", "prediction on a dataset with the same feature names in another order raised",
                         dict(cols=cols, error=repr(e)[:200])))
            continue
        if got != expect(order):
            viol.append(("predict-by-name", "prediction depends on the position of the feature columns",
                         dict(cols=cols, got=got[:8], want=expect(order)[:8])))
        # model
        wire_cols = [[c, [Fraction(tab["ids"][i]) if c == "rowid" else Fraction(tab["feats"][i][int(c[1:])])
                          for i in order]] for c in cols]
        lines.append(req("predictbyname", names, [Fraction(x) for x in w], len(order), wire_cols))
        pending.append(("predict", dict(case=case, var=var, cols=cols), got, api))
    # a different set of names is refused
    which = rng.choice(["rename", "drop", "extra"])
    cols = list(names)
    rename = None
    if which == "rename":
        rename = {rng.choice(cols[1:]): "zzz"}
    elif which == "drop" and len(cols) > 2:
        cols.remove(rng.choice(cols[1:]))
    df3 = build_psms(tab, var["order"], colnames=cols, rename=rename)
    if which == "extra":
        df3["extra"] = 1.0
    ps3 = dataset(df3, enforce=False)
    try:
        model.predict(ps3)
        got3 = "ok"
    except ValueError:
        got3 = "reject-features"
    except Exception as e:  # noqa: BLE001
        got3 = "other:" + type(e).__name__
    names3 = [c for c in df3.columns if c not in ("target", "spec", "pep")]
    if set(names3) != set(names):
        chk.reject("predict-other-feature-names:" + got3)
        wire_cols = [[c, [Fraction(0)] * n] for c in names3]
        lines.append(req("predictbyname", names, [Fraction(x) for x in w], n, wire_cols))
        pending.append(("predict-reject", dict(case=case, var=var, cols=names3), got3, api))
    # a single PSM (predict_proba estimators must still return one score per row)
    one = [var["order"][0]]
    try:
        got1 = [float(x) for x in np.atleast_1d(model.predict(dataset(build_psms(tab, one), enforce=False)))]
    except Exception as e:  # noqa: BLE001
        got1 = "raised " + repr(e)[:120]
    if got1 != expect(one):
        viol.append(("predict", "Model.predict on a single PSM does not return that PSM's score",
                     dict(got=got1, want=expect(one))))
    # save / load
    try:
        path = Path(tmp) / "m.pkl"
        mokapot.save_model(model, path)
        loaded = mokapot.load_model(path)
        again = [float(x) for x in loaded.predict(obs["psms"])]
        if again != base or loaded.features != model.features or not loaded.is_trained:
            viol.append(("save-load", "a saved and re-loaded model predicts differently",
                         dict(got=again[:8], want=base[:8], features=loaded.features)))
        path2 = Path(tmp) / "m2.pkl"
        model.save(path2)
        if path.read_bytes() != path2.read_bytes():
            viol.append(("save-load", "save_model and Model.save write different files", {}))
    except Exception as e:  # noqa: BLE001
        viol.append(("save-load", "saving, re-loading or predicting with the re-loaded model raised",
                     dict(error=repr(e)[:200])))
    return viol


# ----------------------------------------------------------------------------
# one case
# ----------------------------------------------------------------------------
def jsonable(case):
    return json.loads(json.dumps(case))


def eval_cases(chk, cases, with_predict=True):
    lines, pending = [], []
    with tempfile.TemporaryDirectory() as tmp:
        for case in cases:
            outcomes = []
            case_boundary = False
            per_var = []
            cache = {}
            for var in case["variants"]:
                if case.get("stop_if_not_started") and per_var and per_var[0][1]["status"] in (
                        "reject-nostart", "reject-notargets", "reject-nodecoys", "dataset-reject"):
                    break   # the sweep: no fit call is ever made for this table, the draw is irrelevant
                obs = run_variant(case, var, cache)
                if obs["status"] == "dataset-reject":
                    chk.reject("dataset-constructor:" + (obs["error"] or "")[:40])
                    per_var.append((var, obs, [], None))
                    continue
                viol, boundary = spec_check_run(case, var, obs)
                case_boundary |= boundary
                if obs["status"].startswith("other:"):
                    viol.append(("exception", "Model.fit raised an unexpected exception", dict(error=obs["error"])))
                perm = observed_perm(case, var, obs)
                if sorted(perm) != list(range(len(perm))):
                    viol.append(("rows", "the estimator is not asked to score every PSM exactly once", dict(perm=perm)))
                    perm = list(range(len(perm)))
                per_var.append((var, obs, viol, perm))
                outcomes.append((var, canon_outcome(case, obs)))
            if case_boundary:
                chk.float_boundary += 1
                continue
            # invariance over row order / shuffle / seed
            inv_viol = []
            if case["kind"] in INVARIANT_KINDS and outcomes:
                v0, o0 = outcomes[0]
                for v, o in outcomes[1:]:
                    for key in ("status", "weights", "trace"):
                        if o[key] != o0[key]:
                            inv_viol.append(("order-invariance",
                                             f"{key} of the trained model depends on input row order, shuffle switch "
                                             "or seed although the estimator ignores the order of its examples",
                                             dict(variant_a=v0, variant_b=v, a=str(o0[key])[:300], b=str(o[key])[:300])))
                            break
            for var, obs, viol, perm in per_var:
                if perm is None:
                    continue
                its = split_events(obs["events"])
                nontriv = len(its) >= 2 or (var["shuffle"] and perm != list(range(len(perm))))
                key = (json.dumps(case["tab"], sort_keys=True), case["kind"], case["api"], case["thr"],
                       case["max_iter"], case["override"], case["direction"], json.dumps(var, sort_keys=True))
                chk.case(None, key if nontriv else None,
                         sample=dict(n=len(perm), kind=case["kind"], api=case["api"], thr=case["thr"],
                                     max_iter=case["max_iter"], shuffle=var["shuffle"], status=obs["status"],
                                     fit_calls=len(its), first_fit=[(r[0], y) for r, y in
                                                                    zip(its[0]["rows"], its[0]["y"])][:10] if its else []))
                n = len(perm)
                chk.count("n", n if n < 10 else (n // 10) * 10)
                chk.count("kind", case["kind"])
                chk.count("api", case["api"])
                chk.count("shuffle", var["shuffle"])
                chk.count("max_iter", case["max_iter"])
                chk.count("fit_calls", len(its))
                chk.count("status", obs["status"])
                chk.count("pattern", case["tab"]["pat"])
                chk.count("direction", "auto" if case["direction"] is None else "given")
                chk.count("thr", case["thr"])
                chk.count("row_order", "identity" if var["order"] == sorted(var["order"]) else "permuted")
                if obs["status"] != "ok":
                    chk.reject(obs["status"])
                if with_predict and obs["status"] == "ok" and not viol:
                    viol = viol + predict_checks(chk, case, var, obs, chk.rng if False else _case_rng(case, var),
                                                 tmp, lines, pending)
                for sig, clause, detail in viol:
                    chk.spec_violation(sig, dict(case=jsonable(case), variant=var, clause=clause, **detail,
                                                 impl=impl_summary(obs)))
                lines.append(fit_request("fitmodel", case, var, perm))
                pending.append(("fit", dict(case=case, var=var, perm=perm), impl_fit_view(obs), bool(viol)))
                lines.append(fit_request("fitspec", case, var, perm))
                pending.append(("fitspec", dict(case=case, var=var, perm=perm), None, False))
                obs["model"] = None
                obs["psms"] = None
            for sig, clause, detail in inv_viol:
                chk.spec_violation(sig, dict(case=jsonable(case), clause=clause, **detail))
    resp = common.driver_batch(lines)
    last_fit = None
    for (kind, info, impl, had_viol), r in zip(pending, resp):
        if kind == "fit":
            m = parse_fit(r)
            last_fit = m
            if impl != m and not had_viol:
                chk.corr_break("fitmodel", dict(case=jsonable(info["case"]), variant=info["var"], perm=info["perm"],
                                                impl=_short(impl), model=_short(m)))
        elif kind == "fitspec":
            m = parse_fit(r)
            if m != last_fit:
                chk.corr_break("fitspec", dict(case=jsonable(info["case"]), variant=info["var"], perm=info["perm"],
                                               note="driver: fitmodel and fitspec disagree (contradicts the theorem)",
                                               model=_short(last_fit), spec=_short(m)))
        elif kind == "predict":
            api = had_viol
            if r.strip() == "reject-features":
                m = "reject-features"
            else:
                m = [float(s) if api == "decision" else _proba(int(s)) for s in (a_rat(x) for x in dec(r))]
            if m != impl:
                chk.corr_break("predictbyname", dict(case=jsonable(info["case"]), cols=info["cols"],
                                                     impl=str(impl)[:300], model=str(m)[:300]))
        elif kind == "predict-reject":
            m = "reject-features" if r.strip() == "reject-features" else "ok"
            if impl != m:
                # the property does not promise a particular refusal; only model and code must agree
                chk.corr_break("predictbyname-reject", dict(case=jsonable(info["case"]), cols=info["cols"],
                                                            impl=impl, model=m))


def _case_rng(case, var):
    import random

    return random.Random(f"{case['colseed']}-{var['seed']}-{var['shuffle']}")


def _short(v):
    return json.loads(json.dumps(v, default=str))


def impl_summary(obs):
    its = split_events(obs["events"])
    return dict(status=obs["status"], weights=obs["weights"],
                trace=[[(r[0], y) for r, y in zip(it["rows"], it["y"])] for it in its][:4],
                scores=[list(zip(it["sids"] or [], it["svals"] or [])) for it in its][:4])


# ----------------------------------------------------------------------------
# a real (closed-form) sklearn classifier: alignment by id exactly, invariance within tolerance
# ----------------------------------------------------------------------------
def sklearn_cases(chk, rng, count):
    import mokapot

    for _ in range(count):
        n = rng.choice([40, 60, 90, 150])
        nfeat = rng.choice([2, 3, 4])
        targets = [rng.random() < 0.55 for _ in range(n)]
        targets[0], targets[1] = True, False
        X = [[rng.gauss(2.0 if (targets[i] and rng.random() < 0.6 and j == 0) else 0.0, 1.0) for j in range(nfeat)]
             for i in range(n)]
        ids = list(range(n))
        rng.shuffle(ids)
        inner = rng.choice(["ridge", "lda"])
        thr = Fraction(rng.choice(["1/4", "1/10", "1/20", "1/2"]))
        max_iter = rng.choice([2, 3, 5])
        preds = []
        viols = []
        for v in range(3):
            order = list(range(n))
            if v:
                rng.shuffle(order)
            df = pd.DataFrame({"target": [targets[i] for i in order], "spec": list(range(n)),
                               "pep": [f"P{ids[i]}" for i in order], "rowid": [float(ids[i]) for i in order],
                               **{f"f{j}": [X[i][j] for i in order] for j in range(nfeat)}})
            psms = dataset(df)
            log = new_log()
            est = RecWrap(inner=inner, log_id=log, id_mean=float(np.mean(ids)), id_std=float(np.std(ids)))
            shuffle = v != 1
            model = mokapot.Model(est, train_fdr=float(thr), max_iter=max_iter, shuffle=shuffle,
                                  rng=rng.randrange(10 ** 6), override=True)
            try:
                model.fit(psms)
                status = "ok"
            except Exception as e:  # noqa: BLE001
                status = classify_exc(e)
            events = RECORDS.pop(log, [])
            its = split_events([(e[0], [[r] for r in e[1]], e[2]) if e[0] == "fit" else e for e in events])
            by_id = {ids[i]: i for i in range(n)}
            cur = None
            for k, it in enumerate(its):
                lab = {by_id[r[0]]: y for r, y in zip(it["rows"], it["y"]) if r[0] in by_id}
                if len(lab) != len(it["rows"]):
                    viols.append(("rows", "a training row is not one PSM of the dataset, or is repeated", dict(iter=k)))
                neg = {i for i, y in lab.items() if y == 0.0}
                pos = {i for i, y in lab.items() if y == 1.0}
                if neg != {i for i in range(n) if not targets[i]}:
                    viols.append(("negatives", "negatives are not exactly the decoys", dict(iter=k, inner=inner)))
                if k > 0 and cur is not None:
                    acc, b = accepted([cur[i] for i in range(n)], targets, thr)
                    if not b and acc != pos:
                        viols.append(("positives", "positives are not exactly the targets accepted at train_fdr under "
                                      "the scores the estimator just gave to those PSMs",
                                      dict(iter=k, inner=inner, extra=sorted(ids[i] for i in pos - acc),
                                           missing=sorted(ids[i] for i in acc - pos))))
                if it["sids"] is not None and sorted(it["sids"]) == sorted(ids):
                    cur = {by_id[r]: Fraction(s) for r, s in zip(it["sids"], it["svals"])}
            chk.case(None, ("sklearn", inner, n, nfeat, str(thr), max_iter, v, tuple(order[:5])),
                     sample=None)
            chk.count("sklearn_inner", inner)
            chk.count("sklearn_status", status)
            if status != "ok":
                chk.reject("sklearn:" + status)
                continue
            p = np.asarray(model.predict(psms), dtype=float)
            back = np.empty(n)
            back[np.asarray(order)] = p
            preds.append(back)
            # by name + save/load, bit for bit
            cols = ["rowid"] + [f"f{j}" for j in range(nfeat)]
            rng.shuffle(cols)
            p2 = np.asarray(model.predict(dataset(df[["target", "spec", "pep"] + cols])), dtype=float)
            if not np.array_equal(p, p2):
                viols.append(("predict-by-name", "prediction depends on the position of the feature columns",
                              dict(inner=inner, cols=cols)))
            with tempfile.TemporaryDirectory() as tmp:
                f = Path(tmp) / "m.pkl"
                mokapot.save_model(model, f)
                p3 = np.asarray(mokapot.load_model(f).predict(psms), dtype=float)
            if not np.array_equal(p, p3):
                viols.append(("save-load", "a saved and re-loaded model predicts differently", dict(inner=inner)))
        if len(preds) >= 2:
            scale = max(1.0, float(np.max(np.abs(preds[0]))))
            dev = max(float(np.max(np.abs(q - preds[0]))) for q in preds[1:]) / scale
            chk.extra["sklearn_max_rel_deviation_across_orders"] = max(
                chk.extra.get("sklearn_max_rel_deviation_across_orders", 0.0), dev)
            if dev > 1e-6:
                viols.append(("order-invariance-tolerance",
                              "predictions of a closed-form sklearn classifier differ beyond tolerance between "
                              "row orders / shuffle settings", dict(inner=inner, n=n, deviation=dev)))
        for sig, clause, detail in viols:
            chk.spec_violation(sig + ":sklearn", dict(clause=clause, **detail, seed_note="sklearn_cases"))


# ----------------------------------------------------------------------------
# re-fitting a trained model: start labels from scores matched by feature name, through the old scaler
# ----------------------------------------------------------------------------
class IntScaler(BaseEstimator):
    """a data-dependent, exactly computable scaler: (x - column minimum) * mult; column 0 (the id) is kept"""

    def __init__(self, mult=2):
        self.mult = mult

    def fit(self, X):
        X = np.asarray(X, dtype=float)
        lo = X.min(axis=0)
        lo[0] = 0.0
        self.lo_ = lo
        return self

    def transform(self, X):
        X = np.asarray(X, dtype=float)
        out = (X - self.lo_) * self.mult
        out[:, 0] = X[:, 0]
        return out

    def fit_transform(self, X):
        return self.fit(X).transform(X)


def refit_cases(chk, rng, count):
    import copy

    import mokapot
    from sklearn.exceptions import NotFittedError

    lines, pending = [], []
    lines_p, pending_p = [], []     # `predictscaled`: Model.predict through a data-dependent positional scaler
    for _ in range(count):
        tab = gen_table(rng, 60)
        n = len(tab["ids"])
        nfeat = len(tab["feats"][0])
        if n < 6 or nfeat < 2 or not any(tab["targets"]) or all(tab["targets"]):
            continue
        names = feat_names(nfeat)
        kind = rng.choice(KINDS)
        api = rng.choice(["decision", "proba2", "proba1"])
        nt = sum(tab["targets"])
        thr = rng.choice([t for t in (Fraction(1, 2), Fraction(1, 4), Fraction(3, 4), Fraction(3, 8), Fraction(1))
                          if t * nt >= 2] or [Fraction(1)])
        scaled = rng.random() < 0.6
        mult = rng.choice([1, 2, 3])
        log = new_log()
        model = mokapot.Model(APIS[api](kind=kind, log_id=log), scaler=IntScaler(mult) if scaled else "as-is",
                              train_fdr=float(thr), max_iter=rng.choice([1, 2, 3]), shuffle=rng.random() < 0.5,
                              rng=rng.randrange(10 ** 6), override=True)
        order0 = list(range(n))
        try:
            model.fit(dataset(build_psms(tab, order0)))
        except Exception as e:  # noqa: BLE001
            chk.reject("refit-first-fit:" + classify_exc(e))
            RECORDS.pop(log, None)
            continue
        w = list(model.estimator.w_)
        lo = [0] * (nfeat + 1)
        m = 1
        if scaled:
            lo = [int(v) for v in model.scaler.lo_]
            m = mult

        def srow(i, cols):
            """the row of PSM i as the old scaler delivers it, columns in the order `cols`"""
            out = []
            for c in cols:
                if c == "rowid":
                    out.append(tab["ids"][i])
                else:
                    j = int(c[1:])
                    out.append((tab["feats"][i][j] - lo[j + 1]) * m)
            return out

        # ---- prediction through the scaler: columns (the id as well) and rows in another order ----------
        cols3 = list(names)
        rng.shuffle(cols3)
        order3 = order0[:]
        rng.shuffle(order3)
        n3 = rng.choice([n, n, 1])
        order3 = order3[:n3]
        trained3 = rng.random() < 0.9
        which3 = rng.choice(["same", "same", "same", "same", "same", "rename", "extra"])
        ren3 = {rng.choice(cols3): "zzz"} if which3 == "rename" else None
        df3 = build_psms(tab, order3, colnames=cols3, rename=ren3)
        if which3 == "extra":
            df3["extra"] = 1.0
        names3 = [c for c in df3.columns if c not in ("target", "spec", "pep")]
        ps3 = dataset(df3, enforce=False)
        pm = model if trained3 else mokapot.Model(APIS[api](kind=kind, log_id=log),
                                                  scaler=IntScaler(mult) if scaled else "as-is")
        try:
            got3 = [float(x) for x in np.atleast_1d(pm.predict(ps3))]
        except NotFittedError:
            got3 = "reject-notfitted"
        except ValueError as e:
            got3 = "reject-features" if "do not match" in str(e) else "other:ValueError:" + str(e)[:80]
        except Exception as e:  # noqa: BLE001
            got3 = "other:" + type(e).__name__ + ":" + str(e)[:80]
        sc3 = [sum(a * b for a, b in zip(w, srow(i, names))) for i in order3]
        want3 = [float(x) if api == "decision" else _proba(x) for x in sc3]
        chk.case(None, ("predict-scaled", json.dumps(tab, sort_keys=True), kind, api, scaled, mult, tuple(cols3),
                        tuple(order3), trained3, which3), sample=None)
        chk.count("predict_scaled", f"{'IntScaler' if scaled else 'as-is'},trained={trained3},names={which3},"
                                    f"rows={'1' if n3 == 1 else 'n'}")
        bad3 = False
        if trained3 and which3 == "same":
            if got3 != want3:
                bad3 = True
                chk.spec_violation("predict-scaled-by-name",
                                   dict(clause="Model.predict with a positional scaler: the score of a PSM is not the "
                                               "learned weights applied to its features matched by stored name and "
                                               "scaled with the parameters of the column of that name",
                                        tab=tab, kind=kind, api=api, scaled=scaled, mult=mult, cols=cols3,
                                        order=order3, got=str(got3)[:300], want=str(want3)[:300]))
        else:
            # the property promises no score here (untrained model / another set of feature names)
            chk.reject("predict-scaled:" + (got3 if isinstance(got3, str) else "ok"))
        if not bad3:
            raw3 = {c: [Fraction(tab["ids"][i]) if c == "rowid" else Fraction(tab["feats"][i][int(c[1:])])
                        for i in order3] for c in names}
            wire3 = [[c3, raw3[c] if c in raw3 else [Fraction(1)] * n3]
                     for c, c3 in zip([c for c in cols3] + (["extra"] if which3 == "extra" else []), names3)]
            lines_p.append(req("predictscaled", trained3, [Fraction(x) for x in lo], Fraction(m), names,
                               [Fraction(x) for x in w], n3, wire3))
            pending_p.append((got3, api, dict(tab=tab, kind=kind, api=api, scaled=scaled, mult=mult, cols=names3,
                                              order=order3, trained=trained3)))

        # the second dataset: other row order, other feature-column order (the id stays the first feature
        # so that the recorder can still name the PSMs), sometimes another name set
        # (second pass) the table of the re-fit is the same PSMs — or OTHER PSMs: another number of rows, other ids,
        # features at another location, so that the scaler the re-fit fits differs from the stored one (the start
        # scores go through the stored scaler, the training rows through the new one)
        tab2 = tab
        if rng.random() < 0.45:
            for _ in range(8):
                cand = gen_table(rng, 60)
                if len(cand["feats"][0]) == nfeat and len(cand["ids"]) >= 6 and any(cand["targets"]) \
                        and not all(cand["targets"]):
                    shift = rng.choice([0, 4, -6])
                    tab2 = dict(ids=[1000 + x for x in cand["ids"]], feats=[[v + shift for v in r] for r in cand["feats"]],
                                targets=cand["targets"], pat=cand["pat"])
                    break
        n2 = len(tab2["ids"])
        lo2 = [0] + [min(r[j] for r in tab2["feats"]) if scaled else 0 for j in range(nfeat)]

        def srow_via(lo_, i, cols):
            """the row of PSM i of the re-fit table through a scaler with the column minima `lo_`"""
            return [tab2["ids"][i] if c == "rowid" else (tab2["feats"][i][int(c[1:])] - lo_[int(c[1:]) + 1]) * m
                    for c in cols]

        order2 = list(range(n2))
        rng.shuffle(order2)
        cols2 = names[1:]
        rng.shuffle(cols2)
        cols2 = ["rowid"] + cols2
        rename = {cols2[-1]: "zzz"} if rng.random() < 0.1 else None
        ps2 = dataset(build_psms(tab2, order2, colnames=cols2, rename=rename))
        k2 = rng.choice([1, 2, 3])
        sh2 = rng.random() < 0.5
        model.max_iter, model.shuffle, model.rng = k2, sh2, rng.randrange(10 ** 6)
        # `direction` is documented to be ignored once the model is trained (the model op passes none)
        dir2 = rng.choice([None, None, cols2[-1], cols2[1]])
        model.direction = dir2
        # variant B of the same re-fit: a deep copy of the trained model — or (second pass) the model saved and
        # re-loaded — with another shuffle switch / seed / row order
        via_pickle = rng.random() < 0.5
        if via_pickle:
            with tempfile.TemporaryDirectory() as tmpd:
                model_b = mokapot.load_model(mokapot.save_model(model, Path(tmpd) / "refit.pkl"))
        else:
            model_b = copy.deepcopy(model)
        log_b = new_log()
        model_b.estimator.log_id = log_b
        sh2b = (not sh2) if rng.random() < 0.7 else sh2
        model_b.shuffle, model_b.rng = sh2b, rng.randrange(10 ** 6)
        order2b = order2[:]
        if rng.random() < 0.6:
            rng.shuffle(order2b)
        RECORDS[log] = []
        try:
            model.fit(ps2)
            status = "ok"
        except Exception as e:  # noqa: BLE001
            status = classify_exc(e)
        events = RECORDS.pop(log, [])
        try:
            model_b.fit(dataset(build_psms(tab2, order2b, colnames=cols2, rename=rename)))
            status_b = "ok"
        except Exception as e:  # noqa: BLE001
            status_b = classify_exc(e)
        events_b = RECORDS.pop(log_b, [])
        chk.count("refit_direction", "none" if dir2 is None else "given")
        chk.count("refit_variant_b", f"shuffle={sh2}->{sh2b},rows={'same' if order2b == order2 else 'permuted'}")
        chk.count("refit_table", "same-psms" if tab2 is tab else "other-psms")
        chk.count("refit_variant_b_object", "save/load" if via_pickle else "deepcopy")
        ids2 = [tab2["ids"][i] for i in order2]
        targets2 = [tab2["targets"][i] for i in order2]
        start_scores = [sum(a * b for a, b in zip(w, srow_via(lo, i, names))) for i in order2]
        acc, boundary = accepted([Fraction(x) for x in start_scores], targets2, thr)
        chk.case(None, ("refit", json.dumps(tab, sort_keys=True), json.dumps(tab2, sort_keys=True), kind, api, str(thr), scaled, tuple(cols2), k2, sh2),
                 sample=None)
        chk.count("refit_status", status)
        chk.count("refit_scaler", "IntScaler" if scaled else "as-is")
        chk.count("refit_cols", "permuted" if cols2 != names else "identity")
        if status != "ok":
            chk.reject("refit:" + status)
        if boundary:
            chk.float_boundary += 1
            continue
        viol = []
        if status.startswith("other:"):
            viol.append(("refit-exception", "re-fitting a trained model raised an unexpected exception", dict(error=status)))
        pre = [e for e in events[: next((k for k, e in enumerate(events) if e[0] == "fit"), len(events))]]
        if rename is None:
            if not pre:
                viol.append(("refit-start-by-name", "no scoring call before the first fit of a re-fit", {}))
            else:
                want_rows = [srow_via(lo, i, names) for i in order2]
                if pre[0][3] != want_rows or pre[0][1] != ids2 or pre[0][2] != start_scores:
                    viol.append(("refit-start-by-name",
                                 "re-fit: the start scores are not computed from each PSM's features matched by "
                                 "stored name and passed through the model's scaler",
                                 dict(got_rows=pre[0][3][:4], want_rows=want_rows[:4], got=pre[0][2][:6],
                                      want=start_scores[:6])))
            fits = [e for e in events if e[0] == "fit"]
            if fits and not viol:
                lab = {r[0]: y for r, y in zip(fits[0][1], fits[0][2])}
                pos = {ids2.index(r) for r, y in lab.items() if y == 1.0 and r in ids2}
                neg = {ids2.index(r) for r, y in lab.items() if y == 0.0 and r in ids2}
                if pos != acc or neg != {k for k in range(n2) if not targets2[k]} or len(lab) != len(fits[0][1]):
                    viol.append(("refit-positives", "re-fit: first training set is not (accepted targets under the "
                                 "by-name start scores, all decoys)", dict(got=sorted(lab.items())[:12])))
        if kind in INVARIANT_KINDS and rename is None and not viol:
            def canon(st, evs, mdl):
                fits_ = [e for e in evs if e[0] == "fit"]
                return dict(status=st, weights=list(mdl.estimator.w_) if st == "ok" else None,
                            trace=[sorted((r[0], y) for r, y in zip(e[1], e[2])) for e in fits_])
            ca, cb = canon(status, events, model), canon(status_b, events_b, model_b)
            for key in ("status", "weights", "trace"):
                if ca[key] != cb[key]:
                    viol.append(("refit-order-invariance",
                                 f"re-fit: {key} depends on the shuffle switch, the seed or the input row order although "
                                 "the estimator ignores the order of its examples",
                                 dict(shuffle_b=sh2b, order2b=order2b, a=str(ca[key])[:300], b=str(cb[key])[:300])))
                    break
        for sig, clause, detail in viol:
            chk.spec_violation(sig, dict(clause=clause, tab=tab, tab2=tab2, kind=kind, api=api, thr=str(thr), scaled=scaled,
                                         mult=mult, cols2=cols2, order2=order2, max_iter2=k2, shuffle2=sh2, direction2=dir2, **detail))
        # model
        scores_ev = [e for e in events if e[0] == "score"]
        after_fit = False
        perm = list(range(n2))
        for e in events:
            if e[0] == "fit":
                after_fit = True
            elif after_fit:
                perm = [ids2.index(r) for r in e[1]]
                break
        names2 = [rename.get(c, c) for c in cols2] if rename else cols2
        rows2 = [srow_via(lo2, i, cols2) for i in order2]
        named = [[c2, [Fraction(v) for v in (srow_via(lo, i, [c])[0] for i in order2)]] for c, c2 in zip(cols2, names2)]
        lines.append(req("refitmodel", Atom(kind), sh2, perm, k2, thr, True, rows2, targets2,
                         [Fraction(x) for x in w], names, named))
        its = split_events([e for e in events[len(pre):]])
        impl = dict(status=status, trace=[[(r[0], y) for r, y in zip(it["rows"], it["y"])] for it in its],
                    weights=list(model.estimator.w_) if status == "ok" else None)
        pending.append((impl, bool(viol), dict(tab=tab, tab2=tab2, kind=kind, thr=str(thr), cols2=names2, order2=order2,
                                               scaled=scaled, perm=perm, k2=k2, sh2=sh2)))
    for (impl, had_viol, info), r in zip(pending, common.driver_batch(lines)):
        m = parse_fit(r)
        if impl != m and not had_viol:
            chk.corr_break("refitmodel", dict(case=info, impl=_short(impl), model=_short(m)))
    for (impl, api, info), r in zip(pending_p, common.driver_batch(lines_p)):
        r = r.strip()
        if r in ("reject-features", "reject-notfitted"):
            m = r
        else:
            m = [float(x) if api == "decision" else _proba(int(x)) for x in (a_rat(t) for t in dec(r))]
        if impl != m:
            chk.corr_break("predictscaled", dict(case=info, impl=str(impl)[:300], model=str(m)[:300]))


# ----------------------------------------------------------------------------
# the scoring API: which method of the estimator `_get_scores` uses, and what it makes of the output's shape
# ----------------------------------------------------------------------------
class _ShapeBase(BaseEstimator):
    """fixed scorer (nothing is learned): raw score of a row = its feature 1 (an integer), times `sign`.
    Every call is logged with the ids of the rows it was given."""

    def __init__(self, log_id=0, sign=1):
        self.log_id = log_id
        self.sign = sign

    def fit(self, X, y):
        RECORDS.setdefault(self.log_id, []).append(
            ("fit", [[int(r[0])] for r in _ints(X)], [float(v) for v in np.asarray(y)]))
        self.fitted_ = True
        return self

    def _rawv(self, X, method):
        rows = _ints(X)
        RECORDS.setdefault(self.log_id, []).append(("call", method, [r[0] for r in rows]))
        return [self.sign * r[1] for r in rows]

    def _p(self, X, flip=False):
        return np.array([_proba(-v if flip else v) for v in self._rawv(X, "predict_proba")], dtype=float)


class ShapeDecision(_ShapeBase):
    def decision_function(self, X):
        return np.array([float(v) for v in self._rawv(X, "decision_function")], dtype=float)


class ShapeDecisionF32(_ShapeBase):
    """decision values as float32 (second pass: the dtype of the estimator's output was always float64)"""

    def decision_function(self, X):
        return np.array([float(v) for v in self._rawv(X, "decision_function")], dtype=np.float32)


class ShapeDecisionI64(_ShapeBase):
    """integer decision values"""

    def decision_function(self, X):
        return np.array([int(v) for v in self._rawv(X, "decision_function")], dtype=np.int64)


class ShapeFlat(_ShapeBase):
    def predict_proba(self, X):
        return self._p(X)


class ShapeCol1(_ShapeBase):
    def predict_proba(self, X):
        return self._p(X).reshape(-1, 1)


class ShapeCol2(_ShapeBase):
    def predict_proba(self, X):
        p = self._p(X)
        return np.column_stack([1.0 - p, p])


class ShapeCol3(_ShapeBase):
    def predict_proba(self, X):
        p = self._p(X)
        return np.column_stack([1.0 - p, p, np.full(len(p), 0.25)])


class ShapeList(_ShapeBase):
    """a nested python list instead of an array (skorch & co. return what their module returns)"""

    def predict_proba(self, X):
        p = self._p(X)
        return [[1.0 - float(v), float(v)] for v in p]


class ShapeBoth(ShapeDecision):
    """both methods, ranking the PSMs in opposite directions: `decision_function` must be the one used"""

    def predict_proba(self, X):
        p = self._p(X, flip=True)
        return np.column_stack([1.0 - p, p])


class ShapeCube(_ShapeBase):
    def predict_proba(self, X):
        p = self._p(X)
        return np.column_stack([1.0 - p, p]).reshape(len(p), 2, 1)


class ShapeCol0(_ShapeBase):
    def predict_proba(self, X):
        return np.empty((len(self._p(X)), 0))


SHAPES = {"decision": ShapeDecision, "dec_f32": ShapeDecisionF32, "dec_i64": ShapeDecisionI64, "flat": ShapeFlat, "col1": ShapeCol1, "col2": ShapeCol2, "col3": ShapeCol3,
          "list2": ShapeList, "both": ShapeBoth, "cube": ShapeCube, "col0": ShapeCol0}
SHAPE_ERRORS = {"cube": "reject-dims", "col0": "reject-index"}
DECISION_SHAPES = ("decision", "dec_f32", "dec_i64", "both")


def shape_outputs(shape, raws):
    """what the estimator's methods return for rows with the raw scores `raws`, as exact wire values:
    (decision argument, predict_proba argument) of the driver op `getscores` — computed here from the
    definition of the fixture, not read back from the code under test"""
    half = Fraction(1, 2)
    p = [half + Fraction(v, PROBA_SHIFT) for v in raws]
    pf = [half + Fraction(-v, PROBA_SHIFT) for v in raws]
    dec_arg = [[Fraction(v) for v in raws]] if shape in DECISION_SHAPES else []
    if shape in ("decision", "dec_f32", "dec_i64"):
        proba = [Atom("vec"), []]        # never called; any value
    elif shape == "flat":
        proba = [Atom("vec"), p]
    elif shape == "col1":
        proba = [Atom("mat"), 1, [[x] for x in p]]
    elif shape in ("col2", "list2"):
        proba = [Atom("mat"), 2, [[1 - x, x] for x in p]]
    elif shape == "col3":
        proba = [Atom("mat"), 3, [[1 - x, x, Fraction(1, 4)] for x in p]]
    elif shape == "both":
        proba = [Atom("mat"), 2, [[1 - x, x] for x in pf]]
    elif shape == "cube":
        proba = [Atom("higher")]
    else:
        proba = [Atom("mat"), 0, [[] for _ in raws]]
    return dec_arg, proba


def shape_spec(shape, raws):
    """re-statement: the score of a PSM is its decision value when the estimator has a `decision_function`,
    otherwise its positive-class probability"""
    if shape in DECISION_SHAPES:
        return [float(v) for v in raws]
    return [_proba(v) for v in raws]


def classify_score_exc(e):
    if isinstance(e, RuntimeError) and "too many dimensions" in str(e):
        return "reject-dims"
    if isinstance(e, IndexError):
        return "reject-index"
    return classify_exc(e)


def gen_shape_case(rng, c):
    shapes = list(SHAPES)
    shape = shapes[c % len(shapes)] if c < 2 * len(shapes) else rng.choice(shapes)
    n = rng.choice([5, 6]) if c < len(shapes) else rng.choice([5, 6, 9, 15, 30, 60])   # small tables first
    targets = [rng.random() < 0.6 for _ in range(n)]
    targets[0], targets[1], targets[2], targets[3] = True, False, True, True
    sign = rng.choice([1, 1, -1])
    vals = rng.sample(range(-3 * n, 3 * n), n)                        # distinct raw scores
    vals.sort(reverse=(sign == 1))
    # most targets in front of the decoys (under `sign`), so that training gets started
    tpos = [i for i in range(n) if targets[i]]
    dpos = [i for i in range(n) if not targets[i]]
    rng.shuffle(tpos)
    rng.shuffle(dpos)
    front = max(2, (2 * len(tpos)) // 3)
    ranking = tpos[:front] + dpos[:1] + tpos[front:] + dpos[1:]
    f0 = [0] * n
    for v, i in zip(vals, ranking):
        f0[i] = v
    ids = list(range(n))
    rng.shuffle(ids)
    tab = dict(ids=ids, feats=[[v] for v in f0], targets=targets, pat="shape")
    thr = rng.choice([t for t in (Fraction(1, 2), Fraction(1, 4), Fraction(3, 4), Fraction(1)) if t * front >= 1])
    if rng.random() < 0.1:
        thr = Fraction(1, 8)
    order = list(range(n))
    rng.shuffle(order)
    return dict(tab=tab, shape=shape, sign=sign, thr=str(thr), shuffle=(rng.random() < 0.6),
                max_iter=rng.choice([1, 2, 3]), order=order, seed=rng.randrange(10 ** 6))


def eval_shape_cases(chk, infos):
    import random

    import mokapot

    lines, pending = [], []
    for info in infos:
        tab, shape, sign, thr = info["tab"], info["shape"], info["sign"], Fraction(info["thr"])
        ids, targets, order = tab["ids"], tab["targets"], info["order"]
        f0 = [r[0] for r in tab["feats"]]
        n = len(ids)
        prng = random.Random(info["seed"])
        log = new_log()
        model = mokapot.Model(SHAPES[shape](log_id=log, sign=sign), scaler="as-is", train_fdr=float(thr),
                              max_iter=info["max_iter"], shuffle=info["shuffle"], rng=info["seed"], override=True,
                              direction="f0")
        psms = dataset(build_psms(tab, order), enforce=False)
        try:
            model.fit(psms)
            status = "ok"
        except Exception as e:  # noqa: BLE001
            status = classify_score_exc(e)
        events = RECORDS.pop(log, [])
        chk.case(None, ("score-api", json.dumps(info, sort_keys=True)), sample=None)
        chk.count("score_api", shape)
        chk.count("score_api_status", f"{shape}:{status}")
        raw_of = {ids[i]: sign * f0[i] for i in range(n)}
        by_id = {ids[i]: i for i in range(n)}
        # ---- ill-formed outputs: nothing is promised, code and model must refuse alike ------------------
        if shape in SHAPE_ERRORS or status in ("reject-dims", "reject-index"):
            chk.reject("score-api:" + status)
            if any(e[0] == "call" for e in events):      # `_get_scores` was reached (training got started)
                d_arg, p_arg = shape_outputs(shape, [raw_of[ids[i]] for i in order])
                lines.append(req("getscores", d_arg, p_arg))
                pending.append(("status", status if status in ("reject-dims", "reject-index") else "ok", info))
            continue
        if status != "ok":
            chk.reject("score-api:" + status)
            continue
        viol = []
        # ---- which method was called -------------------------------------------------------------------
        called = {e[1] for e in events if e[0] == "call"}
        want_called = {"decision_function"} if shape in DECISION_SHAPES else {"predict_proba"}
        if called != want_called:
            viol.append(("score-api-method", "an estimator with a decision_function must be scored with it, one "
                         "without by predict_proba", dict(called=sorted(called))))
        # ---- inside the loop: positives of iteration k+1 = accepted targets under the spec scores --------
        fits = [e for e in events if e[0] == "fit"]
        acc, boundary = accepted([Fraction(raw_of[ids[i]]) for i in range(n)], targets, thr)
        if not boundary:
            for k, e in enumerate(fits[1:], start=1):
                lab = {by_id[r[0]]: y for r, y in zip(e[1], e[2]) if r[0] in by_id}
                pos = {i for i, y in lab.items() if y == 1.0}
                neg = {i for i, y in lab.items() if y == 0.0}
                if len(lab) != len(e[1]) or pos != acc or neg != {i for i in range(n) if not targets[i]}:
                    viol.append(("score-api-positives",
                                 "positives are not exactly the targets accepted at train_fdr under the scores of the "
                                 "method `_get_scores` must use (negatives: the decoys)",
                                 dict(iter=k, extra=sorted(ids[i] for i in pos - acc),
                                      missing=sorted(ids[i] for i in acc - pos))))
                    break
        # ---- Model.predict: all rows, rows in another order, one row ---------------------------------------
        probes = [("all", list(order))]
        o2 = list(order)
        prng.shuffle(o2)
        probes.append(("permuted", o2))
        probes.append(("one", [prng.choice(order)]))
        probes.append(("subset", o2[: max(1, n // 3)]))
        for name, o in probes:
            try:
                got = [float(x) for x in np.atleast_1d(model.predict(dataset(build_psms(tab, o), enforce=False)))]
            except Exception as e:  # noqa: BLE001
                got = "raised " + repr(e)[:160]
            raws = [raw_of[ids[i]] for i in o]
            want = shape_spec(shape, raws)
            chk.count("score_api_probe", name)
            if got != want:
                viol.append(("score-api", "Model.predict does not return, for every PSM of the dataset and in its row "
                             "order, that PSM's own score (decision value / positive-class probability)",
                             dict(probe=name, rows=len(o), got=str(got)[:300], want=str(want)[:300])))
                continue
            d_arg, p_arg = shape_outputs(shape, raws)
            lines.append(req("getscores", d_arg, p_arg))
            pending.append(("scores", got, dict(info, probe=name, rows=o)))
        for sig, clause, detail in viol:
            chk.spec_violation(sig, dict(clause=clause, shape_case=info, **detail))
    for (kind, impl, info), r in zip(pending, common.driver_batch(lines)):
        r = r.strip()
        if r in ("reject-dims", "reject-index"):
            m = r
        elif kind == "status":
            m = "ok"
        else:
            m = [float(a_rat(t)) for t in dec(r)]
        if impl != m:
            chk.corr_break("getscores", dict(case=info, impl=str(impl)[:300], model=str(m)[:300]))


def score_api_cases(chk, rng, count):
    eval_shape_cases(chk, [gen_shape_case(rng, c) for c in range(count)])


# ----------------------------------------------------------------------------
# second audit pass: Model.fit from the DataFrame (feature list given or inferred, any physical column order,
# metadata between the features, unused columns, index / dtype forms, a data-dependent scaler), and the prediction
# of the trained object — also after save/load — on another presentation of the table
# ----------------------------------------------------------------------------
FULL_META = ["target", "spec", "pep"]
FULL_DTYPES = ["float64", "float64", "int64", "float32", "int32"]


def _interleave(rng, a, b):
    """random merge of two lists that keeps the relative order inside each"""
    a, b, out = list(a), list(b), []
    while a or b:
        if a and (not b or rng.random() * (len(a) + len(b)) < len(a)):
            out.append(a.pop(0))
        else:
            out.append(b.pop(0))
    return out


def _full_presentation(rng, n, feat_order, explicit, allf, meta, subset=False):
    """one way of handing the same PSMs to mokapot: row order, physical column order, feature_columns option,
    index labels, column dtypes, encoding of the target column"""
    order = list(range(n))
    if rng.random() < 0.7:
        rng.shuffle(order)
    if subset:
        order = order[: rng.choice([1, max(1, n // 2), n, n])]
    if explicit:
        cols = list(meta) + ["rowid"] + list(allf)      # unused f-columns stay in the frame as non-features
        rng.shuffle(cols)
        fc = list(feat_order)
    else:
        cols = _interleave(rng, meta, feat_order)        # the features are whatever is not declared, in frame order
        fc = None
    # dtypes: per column, or one kind for the whole feature block (`.values` of an all-integer / all-float32 block
    # keeps that dtype, a mixed block is up-cast to float64)
    mode = rng.choice(["mixed", "mixed", "int", "int", "int64", "float32", "float64"])
    pool = {"mixed": FULL_DTYPES, "int": ["int64", "int32"]}.get(mode, [mode])
    return dict(order=order, cols=cols, fc=fc, index=rng.choice(["range", "range", "reversed", "dup", "str"]),
                dtypes={c: rng.choice(pool) for c in ["rowid"] + list(allf)},
                target=rng.choice(["bool", "bool", "int01"]))


def gen_full_case(rng):
    tab = gen_table(rng, 40)
    n = len(tab["ids"])
    nfeat = len(tab["feats"][0])
    allf = [f"f{j}" for j in range(nfeat)]
    meta = FULL_META + (["prot"] if rng.random() < 0.3 else [])
    explicit = rng.random() < 0.6
    feat_order = ["rowid"] + rng.sample(allf, rng.randint(1, nfeat) if explicit else nfeat)
    nt = sum(tab["targets"])
    pool = [Fraction(x) for x in ["1/2", "1/4", "3/4", "1", "3/8", "1/8"]]
    thr = rng.choice([t for t in pool if t * max(nt, 1) >= 2] or [Fraction(1)])
    r = rng.random()
    if r < 0.65:
        direction = None
    elif r < 0.93:
        direction = rng.choice(feat_order)
    else:
        direction = rng.choice(["nope"] + [f for f in allf if f not in feat_order])   # not a feature: KeyError
    variants = []
    for v in range(2):
        variants.append(dict(pres=_full_presentation(rng, n, feat_order, explicit, allf, meta),
                             shuffle=rng.random() < 0.6, seed=rng.randrange(10 ** 6),
                             rng_form=rng.choice(["int", "int", "generator"])))
    variants[1]["shuffle"] = (not variants[0]["shuffle"]) if rng.random() < 0.6 else variants[1]["shuffle"]
    # the dataset a prediction is asked for: the same feature *set*, listed (or inferred) in any order
    p_explicit = rng.random() < 0.5
    p_order = list(feat_order)
    rng.shuffle(p_order)
    probe = _full_presentation(rng, n, p_order, p_explicit, [f for f in allf if f in feat_order] if not p_explicit
                               else allf, meta, subset=True)
    return dict(tab=tab, feat_order=feat_order, meta=meta, kind=rng.choice(KINDS),
                api=rng.choice(["decision", "decision", "proba2", "proba1"]), thr=str(thr),
                max_iter=rng.choice([1, 2, 2, 3, 4]), override=rng.random() < 0.7, direction=direction,
                mult=rng.choice([0, 0, 1, 2, 3]),       # 0: scaler="as-is", otherwise IntScaler(mult)
                enforce=rng.random() < 0.8, variants=variants, probe=probe)


def full_frame(tab, pres):
    order = pres["order"]
    n = len(order)
    data = {}
    for c in pres["cols"]:
        if c == "target":
            v = [bool(tab["targets"][i]) for i in order]
            data[c] = np.array(v, dtype=bool) if pres["target"] == "bool" else np.array([int(x) for x in v], dtype="int64")
        elif c == "spec":
            data[c] = np.arange(n)
        elif c == "pep":
            data[c] = [f"PEP{tab['ids'][i]}" for i in order]
        elif c == "prot":
            data[c] = [f"PR{tab['ids'][i] % 3}" for i in order]
        elif c == "rowid":
            data[c] = np.array([tab["ids"][i] for i in order], dtype=pres["dtypes"][c])
        else:
            data[c] = np.array([tab["feats"][i][int(c[1:])] for i in order], dtype=pres["dtypes"][c])
    df = pd.DataFrame(data, columns=pres["cols"])
    if pres["index"] == "reversed":
        df.index = np.arange(n)[::-1] * 3 + 7
    elif pres["index"] == "dup":
        df.index = np.zeros(n, dtype=int)
    elif pres["index"] == "str":
        df.index = [f"r{(k * 7) % n}-{k}" for k in range(n)]
    return df


def full_dataset(tab, pres, meta, enforce=True):
    import mokapot

    return mokapot.dataset.LinearPsmDataset(full_frame(tab, pres), target_column="target", spectrum_columns="spec",
                                           peptide_column="pep", protein_column="prot" if "prot" in meta else None,
                                           feature_columns=pres["fc"], copy_data=True, enforce_checks=enforce)


def full_wire_frame(tab, pres):
    out = []
    for c in pres["cols"]:
        if c == "rowid":
            out.append([c, [Fraction(tab["ids"][i]) for i in pres["order"]]])
        elif c[0] == "f" and c[1:].isdigit():
            out.append([c, [Fraction(tab["feats"][i][int(c[1:])]) for i in pres["order"]]])
        else:
            out.append([c, []])
    return out


def classify_full_exc(e, direction_is_feature):
    """a KeyError is the expected refusal only for a `direction` that is not a feature of the dataset"""
    if isinstance(e, KeyError) and not direction_is_feature:
        return "reject-keyerror"
    return classify_exc(e)


def eval_full_cases(chk, cases):
    import mokapot
    from sklearn.exceptions import NotFittedError

    lines, pending = [], []
    with tempfile.TemporaryDirectory() as tmp:
        for case in cases:
            tab, feat_order, meta = case["tab"], case["feat_order"], case["meta"]
            ids, n = tab["ids"], len(tab["ids"])
            thr = Fraction(case["thr"])
            mult = case["mult"]
            m = mult or 1
            fidx = [int(c[1:]) for c in feat_order[1:]]
            # the scaler's parameters, computed here from the table (IntScaler: column minimum; the id column is kept)
            lo = [0] + [min(tab["feats"][i][j] for i in range(n)) if mult else 0 for j in fidx]
            scaled = [[(tab["feats"][i][j] - lo[k + 1]) * m for k, j in enumerate(fidx)] for i in range(n)]
            pseudo = dict(tab=dict(ids=ids, feats=scaled, targets=tab["targets"], pat=tab["pat"]), thr=case["thr"],
                          max_iter=case["max_iter"])
            outcomes, per_var = [], []
            boundary_case = False
            for var in case["variants"]:
                pres = var["pres"]
                pvar = dict(order=pres["order"], shuffle=var["shuffle"], seed=var["seed"])
                try:
                    psms = full_dataset(tab, pres, meta, case["enforce"])
                except ValueError as e:
                    chk.reject("dataset-constructor:" + str(e)[:40])
                    continue
                log = new_log()
                seed = var["seed"] if var["rng_form"] == "int" else np.random.default_rng(var["seed"])
                model = mokapot.Model(APIS[case["api"]](kind=case["kind"], log_id=log),
                                      scaler=IntScaler(mult) if mult else "as-is", train_fdr=float(thr),
                                      max_iter=case["max_iter"], direction=case["direction"], override=case["override"],
                                      shuffle=var["shuffle"], rng=seed)
                obs = dict(status=None, weights=None, error=None)
                try:
                    model.fit(psms)
                    obs["status"] = "ok"
                except Exception as e:  # noqa: BLE001
                    obs["status"] = classify_full_exc(e, case["direction"] is None or case["direction"] in feat_order)
                    obs["error"] = repr(e)[:200]
                obs["events"] = RECORDS.pop(log, [])
                if obs["status"] == "ok":
                    obs["weights"] = list(model.estimator.w_)
                viol, boundary = spec_check_run(pseudo, pvar, obs)
                boundary_case |= boundary
                if obs["status"].startswith("other:"):
                    viol.append(("exception", "Model.fit raised an unexpected exception", dict(error=obs["error"])))
                perm = observed_perm(pseudo, pvar, obs)
                if sorted(perm) != list(range(len(perm))):
                    viol.append(("rows", "the estimator is not asked to score every PSM exactly once", dict(perm=perm)))
                    perm = list(range(len(perm)))
                got_lo = None
                # (the order of `Model.features` and the parameters of the fitted scaler are not promised by the property
                #  text as such: they are compared with the Lean model — `fitfull` — and enter the spec only through
                #  the rows handed to the estimator, the invariance over presentations and the predictions below)
                if obs["status"] == "ok" and mult:
                    got_lo = [int(v) for v in model.scaler.lo_]
                its = split_events(obs["events"])
                nontriv = len(its) >= 2 or (var["shuffle"] and perm != list(range(len(perm))))
                chk.case(None, ("full", json.dumps(case, sort_keys=True), json.dumps(var, sort_keys=True))
                         if nontriv else None,
                         sample=dict(full=True, n=n, features=feat_order, cols=pres["cols"], fc=pres["fc"],
                                     status=obs["status"], fit_calls=len(its)))
                chk.count("full_status", obs["status"])
                chk.count("full_features", "given" if pres["fc"] is not None else "inferred")
                chk.count("full_feature_subset", "all" if len(feat_order) == len(tab["feats"][0]) + 1 else "proper-subset")
                chk.count("full_frame_order", "features-in-listed-order" if [c for c in pres["cols"] if c in feat_order]
                          == feat_order else "other")
                chk.count("full_index", pres["index"])
                chk.count("full_dtypes", ",".join(sorted({pres["dtypes"][c] for c in feat_order})))
                chk.count("full_probe_dtypes", ",".join(sorted({case["probe"]["dtypes"][c] for c in feat_order})))
                chk.count("full_target_dtype", pres["target"])
                chk.count("full_scaler", "IntScaler" if mult else "as-is")
                chk.count("full_rng", var["rng_form"])
                chk.count("full_direction", "auto" if case["direction"] is None else
                          ("feature" if case["direction"] in feat_order else "not-a-feature"))
                chk.count("full_shuffle", var["shuffle"])
                if obs["status"] != "ok":
                    chk.reject("full:" + obs["status"])
                # ---- predictions of the trained object ------------------------------------------------------------
                if obs["status"] == "ok" and not viol and not boundary:
                    w = obs["weights"]

                    def expect(order):
                        out = []
                        for i in order:
                            sc = sum(a * b for a, b in zip(w, [ids[i]] + scaled[i]))
                            out.append(float(sc) if case["api"] == "decision" else _proba(sc))
                        return out

                    probe = case["probe"]
                    pds = full_dataset(tab, probe, meta, enforce=False)
                    path = Path(tmp) / "full.pkl"
                    mokapot.save_model(model, path)
                    loaded = mokapot.load_model(path)
                    runs = [("predict:training-dataset", model.predict, psms, pres["order"]),
                            ("decision_function:other-presentation", model.decision_function, pds, probe["order"]),
                            ("predict:other-presentation:loaded", loaded.predict, pds, probe["order"])]
                    for name, fn, ds_, order in runs:
                        try:
                            got = [float(x) for x in np.atleast_1d(fn(ds_))]
                        except Exception as e:  # noqa: BLE001
                            got = "raised " + repr(e)[:160]
                        chk.count("full_probe", name)
                        if got != expect(order):
                            viol.append(("train-predict-by-name",
                                         "the trained model does not give a PSM the score of its own features matched "
                                         "by the names stored at fit time (scaled with the parameters fitted then), "
                                         "whatever the column arrangement / feature_columns order of the dataset",
                                         dict(probe=name, got=str(got)[:300], want=str(expect(order))[:300],
                                              probe_cols=probe["cols"], probe_fc=probe["fc"])))
                    if list(loaded.features) != list(model.features) or not loaded.is_trained:
                        viol.append(("save-load", "a saved and re-loaded model has other feature names",
                                     dict(got=list(loaded.features))))
                    chk.count("full_probe_features", "given" if probe["fc"] is not None else "inferred")
                    if not viol:
                        mdl = [[list(model.features), [Fraction(x) for x in (got_lo or [])], [Fraction(x) for x in w]]]
                        lines.append(req("predictfull", mdl, [mult] if mult else [], len(probe["order"]),
                                         full_wire_frame(tab, probe), meta, [probe["fc"]] if probe["fc"] is not None else []))
                        pending.append(("predict", expect(probe["order"]), case["api"], dict(full_case=case)))
                    # refusals: an untrained model, a dataset with another set of feature names (nothing is promised;
                    # code and model must refuse alike)
                    fresh = mokapot.Model(APIS[case["api"]](kind=case["kind"], log_id=log), scaler="as-is")
                    other = dict(probe, fc=[c for c in (probe["fc"] or feat_order) if c != feat_order[-1]] + ["spec"])
                    for name, mobj, pr, mdl in (("untrained", fresh, probe, []),
                                                ("other-names", model, other,
                                                 [[list(model.features), [Fraction(x) for x in (got_lo or [])],
                                                   [Fraction(x) for x in w]]])):
                        try:
                            mobj.predict(full_dataset(tab, pr, meta, enforce=False))
                            got = "ok"
                        except NotFittedError:
                            got = "reject-notfitted"
                        except ValueError as e:
                            got = "reject-features" if "do not match" in str(e) else "other:ValueError"
                        except Exception as e:  # noqa: BLE001
                            got = "other:" + type(e).__name__
                        chk.reject("full-predict:" + name + ":" + got)
                        lines.append(req("predictfull", mdl, [mult] if mult else [], len(pr["order"]),
                                         full_wire_frame(tab, pr), meta, [pr["fc"]] if pr["fc"] is not None else []))
                        pending.append(("predict-status", got, case["api"], dict(full_case=case, probe=name)))
                    RECORDS.pop(log, None)
                per_var.append((var, obs, viol, perm, got_lo, list(model.features) if obs["status"] == "ok" else None))
                outcomes.append((var, canon_outcome(pseudo, obs), got_lo))
            if boundary_case:
                chk.float_boundary += 1
                continue
            if case["kind"] in INVARIANT_KINDS and len(outcomes) == 2 and not any(v[2] for v in per_var):
                (v0, o0, l0), (v1, o1, l1) = outcomes
                for key in ("status", "weights", "trace"):
                    if o0[key] != o1[key]:
                        per_var[1][2].append(("order-invariance",
                                              f"{key} of the trained model depends on the presentation of the table (row "
                                              "order, physical column order, index, dtypes), the shuffle switch or the "
                                              "seed although the estimator ignores the order of its examples",
                                              dict(a=str(o0[key])[:300], b=str(o1[key])[:300])))
                        break
                else:
                    if l0 != l1:
                        per_var[1][2].append(("order-invariance", "the fitted scaler depends on the presentation of the "
                                              "table", dict(a=l0, b=l1)))
            for var, obs, viol, perm, got_lo, names in per_var:
                for sig, clause, detail in viol:
                    chk.spec_violation(sig, dict(full_case=jsonable(case), variant=var, clause=clause, **detail,
                                                 impl=impl_summary(obs)))
                pres = var["pres"]
                targets = [bool(tab["targets"][i]) for i in pres["order"]]
                lines.append(req("fitfull", Atom(case["kind"]), var["shuffle"], perm, case["max_iter"], thr,
                                 case["override"], [] if case["direction"] is None else [case["direction"]],
                                 full_wire_frame(tab, pres), meta, [pres["fc"]] if pres["fc"] is not None else [],
                                 targets, [mult] if mult else []))
                view = impl_fit_view(obs)
                view["names"], view["lo"] = names, (got_lo if names is not None else None)
                pending.append(("fit", view, bool(viol), dict(full_case=case, variant=var, perm=perm)))
    for (kind, impl, extra, info), r in zip(pending, common.driver_batch(lines)):
        r = r.strip()
        if kind == "fit":
            if r == "reject-keyerror":
                mv = dict(status="reject-keyerror", trace=[], weights=None, names=None, lo=None)
            else:
                v = dec(r)
                if not isinstance(v, list) or len(v) != 3:
                    mv = dict(status="driver:" + r[:60])
                else:
                    st = "reject-worse" if v[0] in ("reject-worse-iter", "reject-worse-final") else v[0]
                    trace = [[(int(a_rat(p[0])), 1.0 if a_bool(p[1]) else 0.0) for p in it] for it in v[1]]
                    if v[2] == "none":
                        names = lo_m = w = None
                    else:
                        names = [common.a_str(t) for t in v[2][0][0]]
                        lo_m = [int(a_rat(t)) for t in v[2][0][1]] or None
                        w = [int(a_rat(t)) for t in v[2][0][2]]
                    mv = dict(status=st, trace=trace, weights=w, names=names, lo=lo_m)
            if impl != mv and not extra:
                chk.corr_break("fitfull", dict(info, impl=_short(impl), model=_short(mv)))
        elif kind == "predict":
            if r.startswith("reject"):
                mv = r
            else:
                mv = [float(x) if extra == "decision" else _proba(int(x)) for x in (a_rat(t) for t in dec(r))]
            if impl != mv:
                chk.corr_break("predictfull", dict(info, impl=str(impl)[:300], model=str(mv)[:300]))
        else:
            mv = r if r.startswith("reject") else "ok"
            if impl != mv:
                chk.corr_break("predictfull-status", dict(info, impl=impl, model=mv))


def full_cases(chk, rng, count):
    eval_full_cases(chk, [gen_full_case(rng) for _ in range(count)])


# ----------------------------------------------------------------------------
# load_model on a Percolator weights file (the other branch of load_model, model.py:518-530)
# ----------------------------------------------------------------------------
def percolator_weights_cases(chk, rng, count):
    """The property speaks of models saved by mokapot; for a Percolator weights file it promises nothing, so a
    refusal is tallied.  If the file loads, the loaded model is a trained Model and must predict by feature name."""
    import mokapot

    with tempfile.TemporaryDirectory() as tmp:
        for c in range(count):
            nfeat = rng.choice([2, 3, 5])
            names = [f"f{j}" for j in range(nfeat)]
            norm = [rng.randint(-8, 8) / 4 for _ in names]
            raw = [rng.randint(-8, 8) / 4 for _ in names]
            m0 = [rng.randint(-8, 8) / 4, rng.randint(-8, 8) / 4]
            path = Path(tmp) / f"weights{c}.txt"
            path.write_text("\t".join(names + ["m0"]) + "\n" + "\t".join(map(str, norm + [m0[0]])) + "\n"
                            + "\t".join(map(str, raw + [m0[1]])) + "\n")
            chk.case(None, None)
            try:
                model = mokapot.load_model(path)
            except Exception as e:  # noqa: BLE001
                chk.reject("load-percolator-weights:" + type(e).__name__)
                chk.extra["load_model_percolator_weights"] = "raises " + repr(e)[:160]
                continue
            n = 6
            tab = dict(ids=list(range(n)), feats=[[rng.randint(-5, 5) for _ in names] for _ in range(n)],
                       targets=[i % 2 == 0 for i in range(n)], pat="percolator")
            preds = []
            for rep in range(2):
                cols = list(names)
                if rep:
                    rng.shuffle(cols)
                df = build_psms(tab, list(range(n)), colnames=["rowid"] + cols).drop(columns=["rowid"])
                try:
                    preds.append([float(x) for x in model.predict(dataset(df, enforce=False))])
                except Exception as e:  # noqa: BLE001
                    chk.reject("predict-percolator-weights:" + type(e).__name__)
                    chk.extra["load_model_percolator_weights"] = "loads; predict raises " + repr(e)[:160]
                    preds = None
                    break
            if preds is not None:
                chk.extra["load_model_percolator_weights"] = "loads and predicts"
                if preds[0] != preds[1] or model.features != names or not model.is_trained:
                    chk.spec_violation("predict-by-name:percolator-weights",
                                       dict(clause="a model loaded from a Percolator weights file predicts by column "
                                                   "position", names=names, raw=raw, a=preds[0], b=preds[1]))


# ----------------------------------------------------------------------------
# third pass: sessions of save_model / Model.save / foreign writes / load_model on a few re-used file names
# (Model/FitStore.lean: saveModel, loadModel, storeRun; theorems C12_store_*)
# ----------------------------------------------------------------------------
STORE_FOREIGN = {0: b"f0\tf1\tm0\n0.5\t-1.0\t0.25\n2.0\t-3.0\t1.5\n",   # a Percolator weights table: the probe reads it
                 1: b"not a model\n",                                   # one line: KeyError, then pickle refuses
                 2: b"",                                                # EmptyDataError: not caught
                 3: b"\xff\xfe\x00\x01 no pickle"}                      # UnicodeDecodeError, then pickle refuses


def _store_table(rng, nfeat):
    n = rng.choice([6, 8, 12, 20, 30])
    targets = [i % 3 != 2 for i in range(n)]
    rng.shuffle(targets)
    feats = []
    for i in range(n):
        good = targets[i] and rng.random() < 0.8
        feats.append([rng.randint(-6, 6) + (14 if good and j == 0 else 0) + (5 if good and j == 1 else 0)
                      for j in range(nfeat)])
    ids = list(range(n))
    rng.shuffle(ids)
    return dict(ids=ids, feats=feats, targets=targets, pat="store")


def gen_store_case(rng):
    """objects: Model instances (trained on a table / untrained); ops over 2-3 file names"""
    nobj = rng.choice([2, 2, 3])
    tables, objs = [], []
    for o in range(nobj):
        nfeat = rng.choice([1, 2, 3])
        tables.append(_store_table(rng, nfeat))
        objs.append(dict(table=len(tables) - 1, nfeat=nfeat, kind=rng.choice(["centroid", "poswt", "warm"]),
                         max_iter=rng.choice([1, 2, 3]), shuffle=rng.random() < 0.5, seed=rng.randrange(10 ** 6),
                         scaler=rng.choice([0, 0, 2, 3]), trained=(o == 0 or rng.random() < 0.85)))
    npath = rng.choice([1, 2, 2, 3])
    ops = []
    nheld = nobj
    for _ in range(rng.choice([4, 6, 8, 10, 14])):
        r = rng.random()
        if r < 0.36 or not ops:
            ops.append(["save", rng.randrange(nheld), rng.randrange(npath), rng.randrange(2), rng.randrange(2)])
        elif r < 0.78:
            adopt = rng.random() < 0.4
            ops.append(["load", rng.randrange(npath + (1 if rng.random() < 0.08 else 0)), rng.randrange(2), adopt])
            if adopt:
                nheld += 1            # (only if the load succeeds; the evaluator skips ops on objects that do not exist)
        elif r < 0.88:
            o = rng.randrange(nheld)
            # `hard`: a table whose signal points the other way, no override: the re-fit raises half-way and leaves
            # the object in whatever state it reached (model.py:277-288 assign before the loop)
            ops.append(["refit", o, rng.randrange(10 ** 6), rng.random() < 0.5, rng.random() < 0.35])
        else:
            ops.append(["put", rng.choice([0, 1, 1, 2, 3]), rng.randrange(npath)])
    ops.append(["load", rng.randrange(npath), rng.randrange(2), False])
    return dict(tables=tables, objs=objs, ops=ops, npath=npath, probe_seed=rng.randrange(10 ** 6))


def _store_probes(seed):
    import random
    r = random.Random(seed)
    probes = []
    for nfeat in (1, 2, 3):
        n = 5
        tab = dict(ids=[r.randrange(50) for _ in range(n)], feats=[[r.randint(-9, 9) for _ in range(nfeat)] for _ in range(n)],
                   targets=[i % 2 == 0 for i in range(n)], pat="probe")
        cols = feat_names(nfeat)
        r.shuffle(cols)
        probes.append(dataset(build_psms(tab, list(range(n)), colnames=cols), enforce=False))
    return probes


def _fingerprint(model, probes):
    out = [bool(getattr(model, "is_trained", None)), tuple(getattr(model, "features", None) or ())]
    for ps in probes:
        try:
            out.append(tuple(float(x) for x in model.predict(ps)))
        except Exception as e:  # noqa: BLE001
            out.append("raises:" + type(e).__name__)
    w = getattr(model.estimator, "w_", None)
    out.append(None if w is None else tuple(w))
    lo = getattr(model.scaler, "lo_", None)
    out.append(None if lo is None else tuple(float(x) for x in lo))
    return tuple(out)


def _store_fit(model, tab, order):
    try:
        model.fit(dataset(build_psms(tab, order), enforce=False))
        return "ok"
    except Exception as e:  # noqa: BLE001
        return classify_exc(e)


def classify_load_exc(e):
    import pickle
    if isinstance(e, FileNotFoundError):
        return "reject-missing"
    if isinstance(e, pickle.UnpicklingError):
        return "reject-unpickle"
    if isinstance(e, pd.errors.EmptyDataError):
        return "reject-other"
    if isinstance(e, ValueError) and "Multi-dimensional indexing" in str(e):
        return "reject-weights"
    return "other:" + type(e).__name__ + ":" + str(e)[:60]


def eval_store_cases(chk, cases, tmp):
    """Every `load_model` must return the state of the model that was saved last under that file (whatever was
    loaded from it before, however the path is spelled); objects already in hand keep their state."""
    import random
    import mokapot

    lines, pend = [], []
    root = Path(tmp) / "store"
    (root / "sub").mkdir(parents=True, exist_ok=True)
    for case in cases:
        for f in root.glob("*.pkl"):
            f.unlink()
        probes = _store_probes(case["probe_seed"])
        log = new_log()
        states = []                    # state id -> fingerprint
        held = []                      # python object, current state id
        nfeat_of = []

        def new_state(model):
            states.append(_fingerprint(model, probes))
            return len(states) - 1

        for o in case["objs"]:
            sc = "as-is" if not o["scaler"] else IntScaler(o["scaler"])
            m = mokapot.Model(RecEstDF(kind=o["kind"], log_id=log), scaler=sc, train_fdr=0.5, max_iter=o["max_iter"],
                              override=True, shuffle=o["shuffle"], rng=o["seed"])
            if o["trained"]:
                chk.count("store_first_fit", _store_fit(m, case["tables"][o["table"]],
                                                        list(range(len(case["tables"][o["table"]]["ids"])))))
            held.append([m, new_state(m)])
            nfeat_of.append(o["nfeat"])

        def spell(j, how):
            return (root / "sub" / ".." / f"m{j}.pkl") if how else (root / f"m{j}.pkl")

        files = {}                     # independent re-statement: file name -> ("state", id) | ("foreign", kind)
        last_loaded = {}
        wire, impl, want = [], [], []
        for op in case["ops"]:
            if op[0] == "save":
                _, o, j, how, api = op
                if o >= len(held):
                    continue
                if api:
                    held[o][0].save(spell(j, how))
                else:
                    mokapot.save_model(held[o][0], spell(j, how))
                files[j] = ("state", held[o][1])
                wire.append([0, held[o][1], j])
                chk.count("store_op", "save")
            elif op[0] == "put":
                _, kind, j = op
                (root / f"m{j}.pkl").write_bytes(STORE_FOREIGN[kind])
                files[j] = ("foreign", kind)
                wire.append([1, kind, j])
                chk.count("store_op", "put")
            elif op[0] == "refit":
                _, o, seed, shuffle, hard = op
                if o >= len(held):
                    continue
                r = random.Random(seed)
                tab = _store_table(r, nfeat_of[o])
                keep_iter = held[o][0].max_iter
                if hard and seed % 2:
                    tab["feats"] = [[-v for v in row] for row in tab["feats"]]   # refused before anything is assigned
                    held[o][0].train_fdr = 0.25
                elif hard:
                    held[o][0].max_iter = 0       # IndexError after features / scaler were re-assigned: a hybrid object
                order = list(range(len(tab["ids"])))
                r.shuffle(order)
                held[o][0].shuffle = shuffle
                chk.count("store_refit", _store_fit(held[o][0], tab, order))
                held[o][0].max_iter = keep_iter
                held[o][1] = new_state(held[o][0])
            else:
                _, j, how, adopt = op
                wire.append([2, j])
                exp = files.get(j)
                want.append(exp[1] if exp and exp[0] == "state" else
                            "reject-missing" if exp is None else
                            {0: "reject-weights", 1: "reject-unpickle", 2: "reject-other", 3: "reject-unpickle"}[exp[1]])
                try:
                    got = mokapot.load_model(spell(j, how))
                except Exception as e:  # noqa: BLE001
                    impl.append(classify_load_exc(e))
                    chk.count("store_op", "load:" + impl[-1].split(":")[0])
                    continue
                fp = _fingerprint(got, probes)
                ids = [k for k, f in enumerate(states) if f == fp]
                if len(ids) > 1:
                    chk.count("store_states_indistinct")
                w = want[-1]
                impl.append(w if w in ids else (ids[0] if ids else "unknown-state"))
                if any(got is h[0] for h in held):
                    impl[-1] = "shared-object"
                chk.count("store_op", "load:ok" + (":after-overwrite-of-a-loaded-file"
                                                   if j in last_loaded and last_loaded[j] != files.get(j) else ""))
                last_loaded[j] = files.get(j)
                if adopt and isinstance(impl[-1], int):
                    held.append([got, impl[-1]])
                    nfeat_of.append(max(1, len(got.features or ["rowid", "f0"]) - 1))
        # objects in hand keep their state (a load that hands out a shared object, or a save that changes its model, shows here)
        drift = [k for k, (m, sid) in enumerate(held) if _fingerprint(m, probes) != states[sid]]
        RECORDS.pop(log, None)
        nload = len(want)
        key = (json.dumps(case["ops"]), case["probe_seed"]) if nload >= 2 and any(isinstance(w, int) for w in want) else None
        chk.case(None, key, sample=dict(store_ops=case["ops"][:6]))
        chk.count("store_loads", min(nload, 6))
        chk.count("store_paths", case["npath"])
        bad = [i for i, (a, b) in enumerate(zip(impl, want)) if a != b and isinstance(b, int)]
        if bad:
            i = bad[0]
            chk.spec_violation("store-last-saved", dict(
                clause="load_model does not return the model that was saved last under that file name (a saved and "
                       "re-loaded model predicts identically)", store_case=case, load_index=i, impl=impl, expected=want))
        elif drift:
            chk.spec_violation("store-alias", dict(
                clause="a model object in hand changed its predictions although only other objects / files were "
                       "operated on (load_model must hand out a fresh object, save must not change the model)",
                store_case=case, objects=drift))
        lines.append(req("storerun", wire))
        lines.append(req("storespec", wire))
        pend.append((case, impl, want))
    out = common.driver_batch(lines)
    for k, (case, impl, want) in enumerate(pend):
        mod = [int(t) if t.isdigit() else t for t in dec(out[2 * k])]
        spc = [int(t) if t.isdigit() else t for t in dec(out[2 * k + 1])]
        if mod != spc:
            chk.corr_break("storespec", dict(store_case=case, model=mod, spec=spc))
        if spc != want:
            chk.corr_break("storespec-py", dict(store_case=case, spec=spc, python=want))
        # a weights table that loads (another pandas) promises nothing: tallied, not compared
        imp = list(impl)
        for i, (a, b) in enumerate(zip(imp, mod)):
            if b == "reject-weights" and a != b:
                chk.reject("load-percolator-weights:loads")
                imp[i] = b
        if imp != mod and all(a == b for a, b in zip(impl, want) if isinstance(b, int)):
            chk.corr_break("storerun", dict(store_case=case, impl=impl, model=mod))
        for a in impl:
            if isinstance(a, str) and a.startswith("reject-"):
                chk.reject("load-model:" + a)


def store_cases(chk, rng, count):
    with tempfile.TemporaryDirectory() as tmp:
        eval_store_cases(chk, [gen_store_case(rng) for _ in range(count)], tmp)


# ----------------------------------------------------------------------------
# exhaustive small scope
# ----------------------------------------------------------------------------
class _CvSpy(BaseEstimator):
    """order-insensitive recording estimator for the hyper-parameter search path (GridSearchCV clones it,
    so the log is a module global keyed by `log_id`); `decision_function` = feature 1 (driver kind `col1`)"""
    LOGS = {}

    def __init__(self, C=1.0, log_id=0):
        self.C = C
        self.log_id = log_id

    def fit(self, X, y):
        _CvSpy.LOGS.setdefault(self.log_id, []).append(
            ("fit", np.asarray(X)[:, 0].astype(int).tolist(), np.asarray(y).astype(int).tolist(), id(self), self.C))
        self.classes_ = np.array([0, 1])
        return self

    def decision_function(self, X):
        _CvSpy.LOGS.setdefault(self.log_id, []).append(("score", np.asarray(X)[:, 0].astype(int).tolist()))
        return np.asarray(X)[:, 1].astype(float)

    def score(self, X, y):
        return 0.0


CV_THR = Fraction(1, 4)


def cv_examples_py(shuffle, perm, ids, labels, needs_cv):
    """direct re-statement of what the search must be given: the labelled PSMs in the applied order,
    each with the class of its own label"""
    if not needs_cv:
        return []
    order = perm if shuffle else range(len(ids))
    return [[(ids[j], 1.0 if labels[j] == 1 else 0.0) for j in order if labels[j] != 0]]


def cvexamples_sweep(chk, rng, count):
    """driver op `cvexamples` (the model's `fitLoopCv … .searches`) against the re-statement, any label vector"""
    lines, want = [], []
    for _ in range(count):
        n = rng.randrange(0, 9)
        ids = [rng.randrange(100) for _ in range(n)]
        labels = [rng.choice([-1, 0, 1]) for _ in range(n)]
        perm = list(range(n))
        rng.shuffle(perm)
        sh, cv = rng.random() < 0.6, rng.random() < 0.8
        lines.append(req("cvexamples", sh, perm, ids, labels, cv))
        want.append((cv_examples_py(sh, perm, ids, labels, cv), dict(shuffle=sh, perm=perm, ids=ids, labels=labels,
                                                                    needs_cv=cv)))
    for r, (w, info) in zip(common.driver_batch(lines), want):
        v = dec(r)
        got = [[(int(a_rat(p[0])), 1.0 if a_bool(p[1]) else 0.0) for p in ex] for ex in v] if isinstance(v, list) \
            else "driver:" + r[:60]
        chk.case(None, None)
        chk.count("cvexamples", f"n={len(info['ids'])}")
        if got != w:
            chk.corr_break("cvexamples", dict(case=info, restated=w, model=got))


def hyperparameter_cases(chk, rng, count):
    """`_find_hyperparameters` (a BaseSearchCV estimator, as PercolatorModel uses) also calls estimator.fit.

    spec (independent of the model): every row handed to ANY fit call carries the label of its own PSM
    (0 = decoy, 1 = target), no PSM twice in one call, and the positives of the search are the targets
    accepted at train_fdr by one feature in one direction (the start labels).
    model (`fitcv`): GridSearchCV fits CV folds — subsets — so the comparison is by multiset: every search-phase
    call is drawn from the model's example list, the k fold-calls of one parameter setting together are exactly
    (k-1) copies of it, a refit call (refit=True) is the list itself in order; all search calls come before the
    first loop fit; the loop calls, the status and `_needs_cv` afterwards equal the model's."""
    import mokapot
    from collections import Counter
    from mokapot.dataset import LinearPsmDataset
    from sklearn.model_selection import GridSearchCV, KFold

    cvexamples_sweep(chk, rng, 5 * count)
    runs = []
    for _ in range(count):
        n = rng.choice([40, 80, 150])
        rs = np.random.default_rng(rng.randrange(1 << 30))
        target = rs.random(n) < 0.5
        f0 = np.where(target & (rs.random(n) < 0.7), rs.normal(4, 1, n), rs.normal(0, 1, n))
        f0 = np.round(f0 * 32).astype(int) * 1024 + np.arange(n)
        df = pd.DataFrame({"t": target, "spec": np.arange(n), "pep": [f"P{i}" for i in range(n)],
                           "rowid": np.arange(n, dtype=float), "f0": f0.astype(float)})
        log_id = rng.randrange(1 << 30)
        shuffle = rng.random() < 0.7
        needs_cv = rng.random() < 0.8
        kf = rng.choice([2, 2, 3])
        refit = rng.random() < 0.5
        grid = [0.1, 1.0]
        max_iter = rng.choice([1, 2, 2])
        if needs_cv:
            est = GridSearchCV(_CvSpy(log_id=log_id), {"C": grid}, cv=KFold(kf), refit=refit)
        else:
            est = _CvSpy(log_id=log_id)
        model = mokapot.Model(est, scaler="as-is", train_fdr=float(CV_THR), max_iter=max_iter, shuffle=shuffle,
                              rng=rng.randrange(1000), override=True)
        inner = id(model.estimator.estimator if needs_cv else model.estimator)
        ds = LinearPsmDataset(df, target_column="t", spectrum_columns="spec", peptide_column="pep",
                              feature_columns=["rowid", "f0"])
        info = dict(n=n, shuffle=shuffle, needs_cv=needs_cv, kfold=kf, refit=refit, max_iter=max_iter)
        try:
            model.fit(ds)
            status = "ok"
        except Exception as e:  # noqa: BLE001
            status = classify_exc(e)
            if status.startswith("other:"):
                chk.reject("hyperparameter-fit-failed:" + type(e).__name__)
                _CvSpy.LOGS.pop(log_id, None)
                continue
        events = _CvSpy.LOGS.pop(log_id, [])
        fits = [ev for ev in events if ev[0] == "fit"]
        calls = [(ev[1], ev[2]) for ev in fits]
        search_calls = [ev for ev in fits if ev[3] != inner]
        loop_calls = [ev for ev in fits if ev[3] == inner]
        chk.case(None, ("cv", log_id), sample=dict(hyperparameter_search=needs_cv, fit_calls=len(calls), **info))
        chk.count("hyperparameter-search", f"needs_cv={needs_cv},shuffle={shuffle},refit={refit},k={kf}")
        # ---- spec, independent of the model -------------------------------------------------
        bad = dup = 0
        for ids, ys in calls:
            dup += len(ids) - len(set(ids))
            for i, y in zip(ids, ys):
                if (y == 0) != (not target[i]) or y not in (0, 1):
                    bad += 1
        if bad or dup:
            chk.spec_violation("cv-fit-misaligned",
                               dict(misaligned_rows=bad, repeated_rows=dup, fit_calls=len(calls),
                                    clause="the hyper-parameter search was fitted on feature rows paired with "
                                           "labels of other PSMs", **info))
            return
        if search_calls:
            got_pos = {i for ev in search_calls for i, y in zip(ev[1], ev[2]) if y == 1}
            tl = [bool(t) for t in target]
            ok = False
            for col in ([Fraction(i) for i in range(n)], [Fraction(int(v)) for v in f0]):
                for sign in (1, -1):
                    if accepted([sign * c for c in col], tl, CV_THR)[0] == got_pos:
                        ok = True
            if not ok:
                chk.spec_violation("cv-positives-start",
                                   dict(positives=sorted(got_pos)[:40], fit_calls=len(calls),
                                        clause="the positives handed to the hyper-parameter search are not the "
                                               "targets accepted at train_fdr by any feature in any direction "
                                               "(the start labels of the same PSMs)", **info))
                return
        # ---- the model ----------------------------------------------------------------------
        perm = next((ev[1] for ev in events if ev[0] == "score"), list(range(n)))
        rows = [[i, int(f0[i])] for i in range(n)]
        line = req("fitcv", Atom("col1"), shuffle, perm, max_iter, CV_THR, True, [], rows, [bool(t) for t in target],
                   needs_cv)
        runs.append((line, info, status, events, fits, search_calls, loop_calls, inner, kf, refit, len(grid),
                     bool(model._needs_cv)))
        # (second pass) the same model object fitted again, as brew(model=<trained PercolatorModel>) does: `_needs_cv` is off
        # now and the inner estimator is trained.  Every fit call must still pair each row with the class of its own PSM,
        # no search may run again.  The rows come in another order, under permuted index labels.
        if status == "ok":
            order2 = [int(i) for i in rs.permutation(n)]
            ds2 = LinearPsmDataset(df.iloc[order2], target_column="t", spectrum_columns="spec", peptide_column="pep",
                                   feature_columns=["rowid", "f0"])
            model.shuffle = not shuffle
            try:
                model.fit(ds2)
                st2 = "ok"
            except Exception as e:  # noqa: BLE001
                st2 = classify_exc(e)
            fits2 = [ev for ev in _CvSpy.LOGS.pop(log_id, []) if ev[0] == "fit"]
            bad2 = sum(1 for ev in fits2 for i, y in zip(ev[1], ev[2]) if (y == 0) != (not target[i]) or y not in (0, 1))
            dup2 = sum(len(ev[1]) - len(set(ev[1])) for ev in fits2)
            chk.case(None, ("cv-refit", log_id))
            chk.count("hyperparameter-refit", f"first_needs_cv={needs_cv},status={st2}")
            if st2 != "ok":
                chk.reject("hyperparameter-refit:" + st2)
            if bad2 or dup2 or st2.startswith("other:"):
                chk.spec_violation("cv-refit-misaligned",
                                   dict(misaligned_rows=bad2, repeated_rows=dup2, fit_calls=len(fits2), status=st2,
                                        clause="fitting an already trained model (after its hyper-parameter search) "
                                               "again: feature rows paired with labels of other PSMs", **info))
                return
            if any(ev[3] != inner for ev in fits2) or bool(model._needs_cv) or (st2 == "ok" and len(fits2) != max_iter):
                chk.corr_break("fitcv-refit", dict(case=info, why="a second fit of the model searched again, trained "
                                                   "another estimator object or made another number of fit calls",
                                                   fit_calls=len(fits2), needs_cv=bool(model._needs_cv)))
    for r, run in zip(common.driver_batch([x[0] for x in runs]), runs):
        _, info, status, events, fits, search_calls, loop_calls, inner, kf, refit, ngrid, flag = run
        v = dec(r)
        if not isinstance(v, list) or len(v) != 5:
            chk.corr_break("fitcv", dict(case=info, model="driver:" + r[:80]))
            continue
        pairs = lambda ex: [(int(a_rat(p[0])), 1 if a_bool(p[1]) else 0) for p in ex]  # noqa: E731
        m_status = "reject-worse" if v[0] in ("reject-worse-iter", "reject-worse-final") else v[0]
        m_trace = [pairs(ex) for ex in v[1]]
        m_search = [pairs(ex) for ex in v[3]]
        m_flag = a_bool(v[4])
        why = None
        impl_loop = [list(zip(ev[1], ev[2])) for ev in loop_calls]
        if status != m_status:
            why = f"status impl={status} model={m_status}"
        elif impl_loop != m_trace:
            why = "loop fit calls differ"
        elif flag != m_flag:
            why = f"_needs_cv afterwards impl={flag} model={m_flag}"
        elif len(m_search) != (1 if search_calls else 0):
            why = f"search ran {len(search_calls)} estimator fits, model has {len(m_search)} search calls"
        elif search_calls:
            M = m_search[0]
            cm = Counter(M)
            nfold = kf * ngrid
            first_loop = next((j for j, ev in enumerate(fits) if ev[3] == inner), len(fits))
            if any(ev[3] != inner for ev in fits[first_loop:]):
                why = "a search fit call comes after the first loop fit"
            elif len(search_calls) != nfold + (1 if refit else 0):
                why = f"{len(search_calls)} search fit calls, expected {nfold}+{int(refit)}"
            else:
                for ev in search_calls:
                    if Counter(zip(ev[1], ev[2])) - cm:
                        why = "a search fit call contains an example that is not in the model's example list"
                by_c = {}
                for ev in search_calls[:nfold]:
                    by_c.setdefault(ev[4], Counter()).update(zip(ev[1], ev[2]))
                want = Counter({k: c * (kf - 1) for k, c in cm.items()})
                if why is None and (len(by_c) != ngrid or any(u != want for u in by_c.values())):
                    why = "the CV-fold fit calls of one parameter setting do not add up to the model's example multiset"
                if why is None and refit and list(zip(search_calls[-1][1], search_calls[-1][2])) != M:
                    why = "the full-data refit call differs from the model's example list"
        if why:
            chk.corr_break("fitcv", dict(case=info, why=why, impl_status=status,
                                         impl_search=_short([list(zip(ev[1], ev[2])) for ev in search_calls]),
                                         model_search=_short(m_search), impl_loop=_short(impl_loop),
                                         model_loop=_short(m_trace)))


def seeds_for_perms(n):
    want = {p: None for p in itertools.permutations(range(n))}
    missing = len(want)
    s = 0
    while missing:
        p = tuple(int(x) for x in np.random.default_rng(s).permutation(np.arange(n)))
        if want[p] is None:
            want[p] = s
            missing -= 1
        s += 1
    return want


def exhaustive(chk, nmax, iters, kinds=("poswt",), stride=1):
    total = 0
    batch = []
    idx = 0
    for n in range(2, nmax + 1):
        seeds = seeds_for_perms(n)
        for fv in itertools.product(range(3), repeat=n):
            for lab in itertools.product([False, True], repeat=n):
                if all(lab) or not any(lab):
                    continue
                idx += 1
                if idx % stride:
                    continue
                tab = dict(ids=list(range(n)), feats=[[v] for v in fv], targets=list(lab), pat="exhaustive")
                for kind in kinds:
                    for mi in iters:
                        variants = [dict(order=list(range(n)), shuffle=False, seed=0)]
                        variants += [dict(order=list(range(n)), shuffle=True, seed=s) for s in seeds.values()]
                        batch.append(dict(tab=tab, kind=kind, api="decision", thr="1/2", max_iter=mi, override=True,
                                          direction=None, variants=variants, enforce=True, colseed=0,
                                          stop_if_not_started=True))
                        total += len(variants)
                if len(batch) >= 150:
                    eval_cases(chk, batch, with_predict=False)
                    batch = []
                    if chk.spec_violations:
                        return total
    if batch:
        eval_cases(chk, batch, with_predict=False)
    chk.extra["exhaustive_sweep"] = (
        f"all tables n<={nmax} (one feature in 0..2, every mixed labelling{'' if stride == 1 else f', every {stride}th'}) x "
        f"every permutation as the shuffle draw + shuffle off x max_iter in {list(iters)} x kinds {list(kinds)}: "
        f"{total} Model.fit runs")
    return total


def argsort_cases(chk, rng, count):
    lines, perms = [], []
    for _ in range(count):
        n = rng.choice([1, 2, 3, 5, 8, 13, 40])
        p = list(range(n))
        rng.shuffle(p)
        perms.append(p)
        lines.append(req("argsort", p))
    for p, r in zip(perms, common.driver_batch(lines)):
        v = dec(r)
        m = [int(x) for x in (v if isinstance(v, list) else [v])]
        got = [int(x) for x in np.argsort(np.asarray(p, dtype=np.int64))]
        chk.count("argsort", len(p))
        if [p[i] for i in got] != sorted(p):
            chk.spec_violation("argsort", dict(perm=p, impl=got, clause="np.argsort does not sort"))
        elif got != m:
            chk.corr_break("argsort", dict(perm=p, impl=got, model=m))


# ----------------------------------------------------------------------------
def corpus_cases():
    p = common.VERIF / "harness" / "corpus" / "C12.json"
    if p.exists():
        return json.loads(p.read_text())
    return []


def minimise(chk):
    """shrink the first by-id spec violation to a minimal PSM table"""
    if not chk.spec_violations:
        return
    sig, info = chk.spec_violations[0]
    if "store_case" in info:
        common.build_and_audit("C12")
        with tempfile.TemporaryDirectory() as tmp:
            eval_store_cases(chk, [info["store_case"]], tmp)
        for sig, i in chk.spec_violations:
            print("REPRODUCED", sig, json.dumps(i, default=str)[:1500])
        return 1 if chk.spec_violations else 0
    if "case" not in info or "tab" not in info.get("case", {}):
        return
    c0 = info["case"]
    n0 = len(c0["tab"]["ids"])
    if n0 > 150:
        return

    def sub_case(keep):
        keep = list(keep)
        remap = {old: new for new, old in enumerate(keep)}
        tab = c0["tab"]
        t2 = dict(ids=[tab["ids"][i] for i in keep], feats=[tab["feats"][i] for i in keep],
                  targets=[tab["targets"][i] for i in keep], pat=tab["pat"])
        vs = [dict(v, order=[remap[i] for i in v["order"] if i in remap]) for v in c0["variants"]]
        return dict(c0, tab=t2, variants=vs)

    def fails(keep):
        if len(keep) < 2:
            return False
        sub = common.Check(chk.prop, chk.tier, chk.seed)
        try:
            eval_cases(sub, [sub_case(keep)])
        except Exception:  # noqa: BLE001
            return False
        return any(s == sig for s, _ in sub.spec_violations)

    try:
        if not fails(list(range(n0))):
            return
        small = common.shrink_list(list(range(n0)), fails, min_len=2)
        sub = common.Check(chk.prop, chk.tier, chk.seed)
        eval_cases(sub, [sub_case(small)])
        for s, i in sub.spec_violations:
            if s == sig:
                chk.spec_violations[0] = (s, dict(i, shrunk_from_rows=n0))
                break
    except Exception:  # noqa: BLE001
        pass


def search(chk):
    rng = chk.rng
    eval_cases(chk, [gen_case(rng, 60) for _ in range(400)])
    if not chk.spec_violations:
        refit_cases(chk, rng, 300)
    if not chk.spec_violations:
        score_api_cases(chk, rng, 300)
    if not chk.spec_violations:
        full_cases(chk, rng, 400)
    if not chk.spec_violations:
        store_cases(chk, rng, 400)
    if not chk.spec_violations:
        exhaustive(chk, 4, (1, 2, 3))
    minimise(chk)


def main(chk, args):
    build = common.build_and_audit("C12")
    if not build.driver_ok:
        chk.finish(build, RULE)
    rng = chk.rng
    quick = chk.tier == "quick"
    cases = corpus_cases()
    cases += [gen_case(rng) for _ in range(300 if quick else 2500)]
    cases += [gen_case(rng, big=True) for _ in range(3 if quick else 12)]
    eval_cases(chk, cases)
    argsort_cases(chk, rng, 50 if quick else 500)
    sklearn_cases(chk, rng, 6 if quick else 60)
    refit_cases(chk, rng, 90 if quick else 700)
    hyperparameter_cases(chk, rng, 12 if quick else 120)
    score_api_cases(chk, rng, 33 if quick else 330)
    percolator_weights_cases(chk, rng, 2 if quick else 10)
    full_cases(chk, rng, 60 if quick else 600)
    store_cases(chk, rng, 60 if quick else 900)
    if quick:
        exhaustive(chk, 3, (1, 2))
    else:
        exhaustive(chk, 4, (1, 2, 3))
    minimise(chk)
    lc = common.leanchecker("C12") if chk.tier == "thorough" else None
    chk.assumptions += [
        "the estimator is a black box: the theorems hold for every `fit`/`score` pair (state may be warm-started); "
        "`score` acts row by row (decision_function / predict_proba of sklearn-style estimators)",
        "shuffle/row-order invariance of the learned model is proved for estimators whose `fit` ignores the order "
        "of its examples (PermInvariant); for real solvers this holds up to solver tolerance, which is only measured "
        "(RidgeClassifier/LDA closed form, evidence key sklearn_max_rel_deviation_across_orders)",
        "rng.permutation(arange n) returns a permutation of 0..n-1 (the theorems quantify over all of them); the "
        "harness reads the permutation actually drawn off the first scoring call",
        "third pass: Model.save / save_model / load_model are modelled over a file store (saveModel, loadModel, storeRun: "
        "wb+ overwrite, csv probe, except-list dispatch, pickle.load); pickle itself is a parameter of the C12_store_* "
        "theorems with two hypotheses - load(dump m) = m, and the csv probe cannot read a dump (KeyError / "
        "UnicodeDecodeError) - which are only checked differentially (bit-identical predictions, same file from "
        "save_model and Model.save, sessions of store_cases); two spellings of one path are the same file by the OS",
        "scaler='as-is' in the exact runs; StandardScaler only in the sklearn runs (scaling is a per-column affine "
        "map fitted before shuffling and is not part of this property)",
        "hyper-parameter search (_find_hyperparameters with a BaseSearchCV estimator, PercolatorModel) is modelled as a "
        "black-box function of the example list it is given (fitLoopCv / fitModelCv, theorems C12_search_*); what "
        "GridSearchCV does with the examples (CV splitter, scoring, refit) is not modelled: its fold-fit calls are "
        "compared with the model's example list as multisets (KFold: the k fold-calls of one parameter setting add "
        "up to k-1 copies) and by the alignment oracle (hyperparameter_cases); shuffle-invariance of the chosen "
        "parameters is proved for searches that ignore the order of their examples (an un-shuffled KFold does not)",
        "re-fitting a trained model is modelled (refitModel) with the scaler taken as a per-column map that "
        "commutes with column selection (IntScaler in the harness)",
        "_get_scores is modelled on the outputs of the estimator's methods (getScores: decision_function first, else "
        "predict_proba as vector / matrix of any width / >2 axes); that an estimator's methods act row by row is the "
        "estimator's contract (Est.score), not mokapot's; ill-formed outputs (3 axes, no column) promise nothing and "
        "are only compared code vs model (reject-dims / reject-index)",
        "Model.decision_function with a scaler is modelled with an arbitrary positional transform applied after the "
        "selection by stored name (predictScaled); fitting the scaler (fit_transform at model.py:288) is not modelled",
        "second pass: Model.fit from the DataFrame is modelled (fitFull: PsmDataset feature list dataset.py:108-113, "
        "features by name dataset.py:143-146, stored names and scaler fit model.py:286-288, direction by name) and the "
        "prediction of the trained object (predictFull); the scaler is an abstract (fit, transform) pair with "
        "fit_transform(X) = transform(X) after fit(X); row-order invariance of the whole is proved for scalers that are "
        "fitted on order-independent statistics and transform row by row (RowWise, ScalerFitPermInvariant; exhibited by "
        "cntScaler, in the harness: IntScaler); the order of Model.features and the scaler parameters are compared "
        "with the model only (the property text does not promise them)",
        "load_model on a Percolator weights file (model.py:518-530) is outside the property text (not a model saved by "
        "mokapot): exercised, outcome recorded in evidence key load_model_percolator_weights, refusals tallied",
        "feature values are small integers so that every estimator sum/product is exact in float64; q-value "
        "threshold comparisons at an exact decimal boundary are tallied as float_boundary_cases and skipped",
    ]
    chk.finish(build, RULE, search=search, lc=lc,
               trusted_extra=["numpy Generator.permutation / argsort / fancy indexing / boolean masks, pandas "
                              "DataFrame.loc column selection, sklearn.base.clone, pickle"])


def replay(chk, path):
    info = json.loads(open(path).read())
    if "shape_case" in info:
        common.build_and_audit("C12")
        eval_shape_cases(chk, [info["shape_case"]])
        for sig, i in chk.spec_violations:
            print("REPRODUCED", sig, json.dumps(i, default=str)[:1500])
        return 1 if chk.spec_violations else 0
    if "full_case" in info:
        common.build_and_audit("C12")
        eval_full_cases(chk, [info["full_case"]])
        for sig, i in chk.spec_violations:
            print("REPRODUCED", sig, json.dumps(i, default=str)[:1500])
        return 1 if chk.spec_violations else 0
    if "store_case" in info:
        common.build_and_audit("C12")
        with tempfile.TemporaryDirectory() as tmp:
            eval_store_cases(chk, [info["store_case"]], tmp)
        for sig, i in chk.spec_violations:
            print("REPRODUCED", sig, json.dumps(i, default=str)[:1500])
        return 1 if chk.spec_violations else 0
    if "case" not in info or "tab" not in info.get("case", {}):
        print(json.dumps(info, indent=1)[:3000])
        return 0
    common.build_and_audit("C12")
    eval_cases(chk, [info["case"]])
    for sig, i in chk.spec_violations:
        print("REPRODUCED", sig, json.dumps(i, default=str)[:1500])
    return 1 if chk.spec_violations else 0
