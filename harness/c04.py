"""C04 — reported q-values control the FDR end to end (PARTIAL: mechanisms, see Props/C04.lean)."""
from __future__ import annotations

import json
import pickle
from fractions import Fraction

import numpy as np

import common
import mkdata
import pipeline as P
from common import dec, req

RULE = (
    "case kinds: (T1) result files of the real assign_confidence (PSM and peptide level) on simulated mixtures: for "
    "several alpha < 1 the accepted decoys + 1 must be <= alpha x accepted targets, and q-values must be computed on "
    "competed rows only (T3); (T2) non-interference on the real brew: the same table is re-run with labels flipped "
    "and features perturbed inside one fold only, with a linear SVM and with a memorising fully grown decision tree: "
    "the model that scores that fold (coefficients / pickled tree) must be bit-identical and the routing unchanged; "
    "(T5) label-blind competition: the same table with coarse (often tied) scores is run with the labels swapped "
    "inside every spectrum, the surviving PSM ids at PSM and peptide level must be identical; "
    "distinct = distinct (data seed, learner, fold, alpha); non-trivial = every case"
)
ALPHAS = [Fraction(1, 100), Fraction(1, 20), Fraction(1, 10), Fraction(1, 4), Fraction(1, 2)]


def simulate(r, n_spectra, pi0=0.5):
    """mixture with ground truth: every spectrum has a target and a decoy PSM; the target is correct with
    probability 1-pi0 (score shifted), otherwise drawn from the same null as the decoy"""
    df = mkdata.make_psm_table(r, n_spectra=n_spectra, max_per_spectrum=1, n_feat=3, label_enc="pm1",
                               optional=("ExpMass",), signal=0.0, integer_scores=False, target_frac=1.0)
    rows = []
    truth = {}
    for i in range(len(df)):
        base = df.iloc[i].to_dict()
        correct = r.random() > pi0
        t = dict(base, SpecId=f"t{i}", Label=1, feat0=r.gauss(3.0 if correct else 0.0, 1.0), feat1=r.gauss(0, 1),
                 feat2=r.gauss(0, 1), Peptide=f"PEPT{i}K", Proteins=f"PROT{i % 11}")
        d = dict(base, SpecId=f"d{i}", Label=-1, feat0=r.gauss(0.0, 1.0), feat1=r.gauss(0, 1), feat2=r.gauss(0, 1),
                 Peptide=f"decoy_PEPT{i}K", Proteins=f"decoy_PROT{i % 11}")
        truth[f"t{i}"] = correct
        rows += [t, d]
    import pandas as pd
    out = pd.DataFrame(rows)[list(df.columns)]
    out["rowid"] = np.arange(len(out))
    return out, truth


def counts_case(chk, rng):
    import random
    import mokapot

    seed = rng.randrange(1 << 30)
    r = random.Random(seed)
    df, truth = simulate(r, rng.choice([150, 300]))
    with P.workdir() as d:
        ds = mkdata.read_dataset(mkdata.write_table(df, d / "in.pin"))
        out = d / "out"; out.mkdir()
        try:
            with P.pep_kernel(stub=True):
                P.run_assign_confidence([ds], [df["feat0"].values.astype(float)], out, prefixes=[None], decoys=True)
        except Exception as e:
            chk.reject("assign_confidence-failed:" + type(e).__name__)
            return
        for level in ("psms", "peptides"):
            t = P.read_result(out / f"targets.{level}"); dd = P.read_result(out / f"decoys.{level}")
            ids = list(t["PSMId"]) + list(dd["PSMId"])
            if len(set(ids)) != len(ids):
                chk.spec_violation("duplicate-rows-at-level", dict(seed=seed, level=level,
                                                                   clause="a PSM occurs twice in a level file"))
                return
            # T3: one row per spectrum at the PSM level (the table has one target and one decoy per spectrum)
            if level == "psms":
                scans = df.set_index("SpecId").loc[ids, "ScanNr"]
                if scans.duplicated().any():
                    chk.spec_violation("qvalues-before-competition",
                                       dict(seed=seed, clause="two PSMs of one spectrum in the PSM-level result"))
                    return
            for a in ALPHAS:
                at = int((t["q-value"] <= float(a)).sum()); ad = int((dd["q-value"] <= float(a)).sum())
                chk.case(None, (seed, level, str(a)), sample=dict(seed=seed, level=level, alpha=str(a),
                                                                accepted_targets=at, accepted_decoys=ad))
                chk.count("T1-level", level)
                if at > 0 and not (ad + 1 <= a * at):
                    chk.spec_violation("counting-inequality",
                                       dict(seed=seed, level=level, alpha=str(a), accepted_targets=at,
                                            accepted_decoys=ad,
                                            clause="accepted decoys + 1 > alpha x accepted targets"))
                    return


def label_blind_case(chk, rng):
    """T5 on the real code: which PSMs survive the competition (PSM level) and represent each peptide must not depend
    on the labels.  Same table, same scores (coarse, so that the target and the decoy of a spectrum often tie), labels
    swapped inside every spectrum: the surviving PSM ids must be the same sets."""
    import random

    seed = rng.randrange(1 << 30)
    r = random.Random(seed)
    df, _ = simulate(r, rng.choice([60, 120]))
    levels = rng.choice([3, 7, 30])
    score = np.array([float(r.randint(0, levels)) for _ in range(len(df))])
    npep = max(2, len(df) // 6)
    df["Peptide"] = [f"PEPT{r.randrange(npep)}K" for _ in range(len(df))]     # peptides shared between spectra
    chunk = rng.choice([None, None, 7, 25])
    survivors = []
    for flipped in (False, True):
        d2 = df.copy()
        if flipped:
            d2["Label"] = -d2["Label"]
        with P.workdir() as d:
            ds = mkdata.read_dataset(mkdata.write_table(d2, d / "in.pin"))
            out = d / "out"; out.mkdir()
            try:
                with P.pep_kernel(stub=True), P.chunk_sizes(**({"confidence": chunk} if chunk else {})):
                    P.run_assign_confidence([ds], [score], out, prefixes=[None], decoys=True)
            except Exception as e:
                chk.reject("assign_confidence-failed:" + type(e).__name__)
                return
            lv = {}
            for level in ("psms", "peptides"):
                t = P.read_result(out / f"targets.{level}"); dd = P.read_result(out / f"decoys.{level}")
                lv[level] = sorted(list(t["PSMId"]) + list(dd["PSMId"]))
            survivors.append(lv)
    ties = int(sum(1 for i in range(0, len(df), 2) if score[i] == score[i + 1]))
    chk.case(None, (seed, "label-blind"), sample=dict(seed=seed, kind="label-blind", spectra=len(df) // 2,
                                                      tied_spectra=ties, chunk=chunk))
    chk.count("T5-tied-spectra", min(ties, 10))
    chk.count("T5-chunk", str(chunk))
    for level in ("psms", "peptides"):
        a, b = survivors
        if a[level] != b[level]:
            only_a = sorted(set(a[level]) - set(b[level]))[:6]
            only_b = sorted(set(b[level]) - set(a[level]))[:6]
            chk.spec_violation("competition-depends-on-labels",
                               dict(seed=seed, level=level, score_levels=levels, chunk=chunk,
                                    survive_with_original_labels_only=only_a, survive_with_swapped_labels_only=only_b,
                                    clause="the PSMs surviving the target-decoy competition change when the labels "
                                           "are swapped although scores and spectra are unchanged: the competition "
                                           "is not label-blind, so incorrect targets and decoys are not exchangeable"))
            return


def model_fingerprint(m):
    est = getattr(m.estimator, "best_estimator_", m.estimator)
    if hasattr(est, "coef_"):
        return np.asarray(est.coef_, dtype=float).tobytes() + np.asarray(est.intercept_, dtype=float).tobytes()
    if hasattr(est, "tree_"):
        st = est.tree_.__getstate__()
        return st["nodes"].tobytes() + st["values"].tobytes()
    return pickle.dumps(est)


def noninterference_case(chk, rng):
    import random
    import mokapot
    from sklearn.tree import DecisionTreeClassifier

    seed = rng.randrange(1 << 30)
    r = random.Random(seed)
    folds = rng.choice([3, 3, 4, 5])
    learner = rng.choice(["svm", "tree"])
    df, _ = simulate(r, rng.choice([400, 600]), pi0=0.4)
    bseed = rng.randrange(10000)

    def make_model():
        if learner == "svm":
            return mokapot.PercolatorModel(train_fdr=0.2, max_iter=2, rng=bseed, override=True)
        return mokapot.Model(DecisionTreeClassifier(random_state=0), train_fdr=0.2, max_iter=2, rng=bseed, override=True)

    with P.workdir() as d:
        p1 = mkdata.write_table(df, d / "a.pin")
        fold_lists = mkdata.read_dataset(p1)._split(folds, np.random.default_rng(bseed))
        f = rng.randrange(folds)
        inside = sorted(int(i) for i in fold_lists[f])
        df2 = df.copy()
        # flip labels and perturb every feature of the rows inside fold f (spectrum keys untouched)
        # (mildly enough that the other folds, which train on these rows, can still be trained)
        for i in inside:
            if r.random() < 0.08:
                df2.loc[i, "Label"] = -df2.loc[i, "Label"]
            for c in ("feat0", "feat1", "feat2"):
                df2.loc[i, c] = df2.loc[i, c] + r.gauss(0.0, 0.3)
        p2 = mkdata.write_table(df2, d / "b.pin")
        # optionally with a training-size cap (sub-sampling must still draw from the other folds only)
        ntrain = len(df) - len(inside)
        cap = rng.choice([None, int(0.6 * ntrain), int(0.9 * ntrain)])
        cpred = rng.choice([len(df) // 2 + 3, len(df) - 1, 97, 10 ** 7])
        try:
            with P.chunk_sizes(predict=cpred):
                _, m1, s1, _ = mokapot.brew(mkdata.read_dataset(p1), make_model(), test_fdr=0.2, folds=folds, rng=bseed,
                                            subset_max_train=cap)
            _, m2, s2, _ = mokapot.brew(mkdata.read_dataset(p2), make_model(), test_fdr=0.2, folds=folds, rng=bseed,
                                        subset_max_train=cap)
        except Exception as e:
            chk.reject("brew-failed:" + type(e).__name__ + ":" + str(e)[:40])
            return
        chk.case(None, (seed, learner, folds, f), sample=dict(seed=seed, learner=learner, folds=folds, fold=f,
                                                            rows_changed=len(inside)))
        chk.count("T2-learner", learner); chk.count("T2-folds", folds); chk.count("T2-cap", "none" if cap is None else "capped")
        if not (m1[f].is_trained and m2[f].is_trained):
            chk.reject("fold-model-untrained")
            return
        if model_fingerprint(m1[f]) != model_fingerprint(m2[f]):
            chk.spec_violation("heldout-interference",
                               dict(seed=seed, learner=learner, folds=folds, fold=f,
                                    clause="changing labels/features of the rows of a fold changed the model that "
                                           "scores that fold"))
            return
        # every PSM must have been scored by the model of its own fold (the one that never saw it), whatever the
        # prediction chunk size: within each fold the returned scores are an increasing function of that model's output
        from mokapot.dataset import LinearPsmDataset
        ds1 = mkdata.read_dataset(p1)
        s1v = np.asarray(s1[0], dtype=float).ravel()
        for g in range(folds):
            rows = sorted(int(i) for i in fold_lists[g])
            sub = df.iloc[rows].copy()
            sub["Label"] = sub["Label"] == 1
            lin = LinearPsmDataset(sub, target_column="Label", spectrum_columns=list(ds1.spectrum_columns),
                                   peptide_column="Peptide", protein_column="Proteins",
                                   feature_columns=list(ds1.feature_columns), copy_data=True)
            raw = np.asarray(m1[g].predict(lin), dtype=float).ravel()
            got = s1v[rows]
            if learner == "tree":
                ok = np.array_equal(raw, got)
            else:
                ok = np.array_equal(np.argsort(np.argsort(raw, kind="stable"), kind="stable"),
                                    np.argsort(np.argsort(got, kind="stable"), kind="stable")) or \
                    np.allclose(np.corrcoef(raw, got)[0, 1], 1.0, atol=1e-9)
            if not ok:
                chk.spec_violation("scored-by-another-model",
                                   dict(seed=seed, learner=learner, folds=folds, fold=g, predict_chunk=cpred,
                                        clause="the returned scores of a fold are not the output of that fold's model "
                                               "(a PSM was scored by a model that may have seen it)"))
                return
        chk.count("T2-predict-chunk", "smaller-than-table" if cpred < len(df) else "whole-table")
        # the fold assignment is a function of the spectrum keys only
        fold_lists2 = mkdata.read_dataset(p2)._split(folds, np.random.default_rng(bseed))
        if [sorted(map(int, x)) for x in fold_lists] != [sorted(map(int, x)) for x in fold_lists2]:
            chk.spec_violation("folds-depend-on-labels",
                               dict(seed=seed, clause="fold assignment changed when only labels/features changed"))


def fdp_search(chk):
    """failing-input search (a search tool only): Monte-Carlo FDP of the full pipeline with a memorising learner"""
    import random
    import mokapot
    from sklearn.tree import DecisionTreeClassifier

    alpha = 0.1
    fdps = []
    for rep in range(12 * chk.budget_mult):
        seed = chk.rng.randrange(1 << 30)
        r = random.Random(seed)
        df, truth = simulate(r, 400, pi0=0.6)
        with P.workdir() as d:
            try:
                ds = mkdata.read_dataset(mkdata.write_table(df, d / "in.pin"))
                model = mokapot.Model(DecisionTreeClassifier(random_state=0), train_fdr=0.1, max_iter=2, rng=seed % 1000,
                                      override=True)
                _, _, scores, descs = mokapot.brew(ds, model, test_fdr=0.1, folds=3, rng=seed % 1000)
                out = d / "o"; out.mkdir()
                with P.pep_kernel(stub=True):
                    P.run_assign_confidence([mkdata.read_dataset(d / "in.pin")], list(scores), out, descs=list(descs),
                                            prefixes=[None], decoys=True)
                t = P.read_result(out / "targets.psms")
            except Exception:
                continue
            acc = t[t["q-value"] <= alpha]
            if len(acc):
                fdps.append((seed, float(np.mean([not truth[x] for x in acc["PSMId"]])), len(acc)))
    if len(fdps) >= 6:
        vals = np.array([f for _, f, _ in fdps])
        # only the null targets are false discoveries; the estimate counts them with pi0 <= 1, so mean FDP <= alpha
        se = vals.std(ddof=1) / np.sqrt(len(vals)) + 1e-12
        if vals.mean() > alpha + 4 * se:
            worst = max(fdps, key=lambda x: x[1])
            chk.spec_violation("fdp-exceeds-alpha",
                               dict(alpha=alpha, mean_fdp=float(vals.mean()), se=float(se), replicates=len(vals),
                                    worst_seed=worst[0], worst_fdp=worst[1],
                                    clause="Monte-Carlo false discovery proportion exceeds alpha by more than 4 SE"))


def main(chk, args):
    build = common.build_and_audit("C04")
    if not build.driver_ok:
        chk.finish(build, RULE)
    n1, n2 = (4, 6) if chk.tier == "quick" else (40, 60)
    for _ in range(n1):
        counts_case(chk, chk.rng)
    for _ in range(n2):
        noninterference_case(chk, chk.rng)
    for _ in range(6 if chk.tier == "quick" else 60):
        label_blind_case(chk, chk.rng)
    lc = common.leanchecker("C04") if chk.tier == "thorough" else None
    chk.assumptions += [
        "PARTIAL: proved for all inputs are the mechanisms the statement names — the '+1' counting inequality of "
        "every accepted set (T1), held-out non-interference for a learner of any capacity (T2), competition before "
        "estimation (T3), label-blind competition (T5). NOT proved: the expectation bound E[FDP] <= alpha for the merged, per-fold calibrated "
        "cross-validation output (scores of fold g depend on the labels of fold f != g; no such theorem is known on "
        "paper); the classical fixed-ranking bound is attempted separately (Props/C04Fdr.lean when present).",
        "the Monte-Carlo simulation is used only as a failing-input search when a proof or check breaks",
    ]
    chk.finish(build, RULE, search=fdp_search, lc=lc,
               trusted_extra=["theorems of C01, C02, C03 (imported)", "sklearn LinearSVC / DecisionTreeClassifier determinism"])


def replay(chk, path):
    info = json.loads(open(path).read())
    print(json.dumps(info, indent=1)[:3000])
    return 0
