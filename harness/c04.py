"""C04 — reported q-values control the FDR end to end (PARTIAL: mechanisms, see Props/C04.lean)."""
from __future__ import annotations

import json
import pickle
from fractions import Fraction

import numpy as np

import common
import mkdata
import pipeline as P
import c04ext
import c04obj
import c04ties
from common import dec, req

RULE = (
    "case kinds: (T1) result files of the real assign_confidence (PSM and peptide level) on simulated mixtures: for "
    "several alpha < 1 the accepted decoys + 1 must be <= alpha x accepted targets, and q-values must be computed on "
    "competed rows only (T3); (T2) non-interference on the real brew: the same table is re-run with labels flipped "
    "and features perturbed inside one fold only, with a linear SVM and with a memorising fully grown decision tree: "
    "the model that scores that fold (coefficients / pickled tree) must be bit-identical and the routing unchanged; "
    "(T5) label swap, ONE-SIDED: the same table with coarse (often tied) scores is run with the labels swapped "
    "inside every spectrum; where the PSM that represents a spectrum / peptide differs between the two runs it is a "
    "violation only if that PSM is a TARGET in at least one of the runs (a tie decided for a target); a decoy in both "
    "runs is a conservative tie-break (the property demands E[FDP] <= alpha, not label-blindness as such) and is "
    "tallied as T5-conservative-tiebreak; "
    "(T1 generator) 1-2 collections with own or shared result files, text/Parquet input, continuous or coarse (tied) "
    "scores, higher- or lower-is-better, and with tie-free scores the decoys above the threshold are also counted "
    "from the input table; "
    "(T2x) brew options: real brew with a memorising probe estimator under ensemble on/off, a list of pre-trained "
    "models in fold order / reversed / rotated, 1-2 collections, 1-3 workers, training cap, small prediction chunks: "
    "without ensemble no returned score may come from a model that memorised the row or trained on its spectrum; "
    "with ensemble the scores are compared with the Lean model (mean over all fold models); "
    "(T5x/T1x) stand-alone roll-up tool on PSM-level result files with tied scores and ids shared between targets "
    "and decoys: survivors vs the Lean model of the tool (tie rule included: decoy files first), counting inequality "
    "on its output, and the same one-sided label-swap clause per level id; "
    "(E2E) the command line (read_pin, brew or --load_models, assign_confidence; 1-2 files, --aggregate, "
    "--keep_decoys, --ensemble, --subset_max_train) against an independent competition + C01 q-values on the scores "
    "of a reference brew; "
    "(second pass) (T2x) the same runs with the local constant chunk_range of make_train_sets replaced by 1/7/16 (the "
    "loop taken only by files above 5 000 000 rows), the Model object handed in must come back unfitted and is handed "
    "to a second brew call; (T2c) the real make_train_sets with a small chunk_range called directly on random folds "
    "of 1-2 files, with/without a cap: no held-out row, no repetition, and equality with the Lean loop; (T2r) ONE "
    "trained Model around a memorising probe whose copies carry tags of their own and whose re-fit gets worse in "
    "all / some / no folds (reset path, warm start): the object handed in is never fitted, every call producing "
    "the returned scores is made by an object not fitted in this call on the rows it scores nor on their spectra, "
    "reset scores are an affine image of the outputs of the object handed in; memories of the objects, the reset "
    "decision and the scores are compared with the Lean model; (T3 at the peptide level) every row of a peptide-level "
    "result file is a PSM-level winner, one per peptide; "
    "distinct = distinct (data seed, learner, fold, alpha / option tuple); non-trivial = every case"
)
ALPHAS = [Fraction(1, 100), Fraction(1, 20), Fraction(1, 10), Fraction(1, 4), Fraction(1, 2)]


def simulate(r, n_spectra, pi0=0.5):
    """mixture with ground truth: every spectrum has a target and a decoy PSM; the target is correct with
    probability 1-pi0 (score shifted), otherwise drawn from the same null as the decoy"""
    df = mkdata.make_psm_table(r, n_spectra=n_spectra, max_per_spectrum=1, n_feat=3, label_enc="pm1",
                               optional=("ExpMass",), signal=0.0, integer_scores=False, target_frac=1.0)
    rows = []
    truth = {}
    for i in range(len(df)):
        base = df.iloc[i].to_dict()
        correct = r.random() > pi0
        t = dict(base, SpecId=f"t{i}", Label=1, feat0=r.gauss(3.0 if correct else 0.0, 1.0), feat1=r.gauss(0, 1),
                 feat2=r.gauss(0, 1), Peptide=f"PEPT{i}K", Proteins=f"PROT{i % 11}")
        d = dict(base, SpecId=f"d{i}", Label=-1, feat0=r.gauss(0.0, 1.0), feat1=r.gauss(0, 1), feat2=r.gauss(0, 1),
                 Peptide=f"decoy_PEPT{i}K", Proteins=f"decoy_PROT{i % 11}")
        truth[f"t{i}"] = correct
        # the two PSMs of a spectrum in random order: the position in the file must carry no information about the
        # label (ties between them are broken by position, see GAPS-C04.md)
        rows += [t, d] if r.random() < 0.5 else [d, t]
    import pandas as pd
    out = pd.DataFrame(rows)[list(df.columns)]
    out["rowid"] = np.arange(len(out))
    return out, truth


def counts_case(chk, rng):
    import random
    import mokapot

    seed = rng.randrange(1 << 30)
    r = random.Random(seed)
    ncoll = rng.choice([1, 1, 2])
    shared = rng.random() < 0.5            # two collections without prefixes share (append to) the result files
    fmt = rng.choice(["pin", "pin", "parquet"])
    coarse = rng.choice([None, None, 4, 25])   # score levels: None = continuous (tie-free), else many tied scores
    desc = rng.random() < 0.75
    # rows per temporary sorted chunk file (None = one chunk): with several chunks the two PSMs of a spectrum can
    # sit in different chunk files, so that the loser of a spectrum reaches the streaming scan (confidence.py:750-766)
    chunk = rng.choice([None, 25, 101])
    tabs = []
    for k in range(ncoll):
        df, truth = simulate(r, rng.choice([150, 300]) if ncoll == 1 else 120)
        df["SpecId"] = [f"c{k}_{x}" for x in df["SpecId"]]
        sc = df["feat0"].values.astype(float)
        if coarse:
            sc = np.clip(np.round(sc * coarse / 6.0), -coarse, coarse).astype(float)
        tabs.append((df, sc))
    with P.workdir() as d:
        dss = [mkdata.read_dataset(mkdata.write_table(df, d / f"in{k}.{fmt}")) for k, (df, _) in enumerate(tabs)]
        out = d / "out"; out.mkdir()
        prefixes = [None] * ncoll if (shared or ncoll == 1) else [f"p{k}" for k in range(ncoll)]
        try:
            with P.pep_kernel(stub=True), P.chunk_sizes(**({"confidence": chunk} if chunk else {})):
                P.run_assign_confidence(dss, [sc if desc else -sc for _, sc in tabs], out, prefixes=prefixes,
                                        descs=[desc] * ncoll, decoys=True)
        except Exception as e:
            chk.reject("assign_confidence-failed:" + type(e).__name__)
            return
        chk.count("T1-collections", ncoll); chk.count("T1-format", fmt); chk.count("T1-desc", desc)
        chk.count("T1-scores", "continuous" if coarse is None else f"{2 * coarse + 1}-levels")
        chk.count("T1-files", "shared" if (ncoll > 1 and shared) else "own")
        chk.count("T1-confidence-chunk", str(chunk))
        for k, (df, sc) in enumerate(tabs):
            pre = f"{prefixes[k]}." if prefixes[k] else ""
            for level in ("psms", "peptides"):
                t = P.read_result(out / f"{pre}targets.{level}"); dd = P.read_result(out / f"{pre}decoys.{level}")
                if t is None or dd is None:
                    chk.spec_violation("result-file-missing", dict(seed=seed, level=level, collection=k,
                                                                   clause="a result file was not written"))
                    return
                if not prefixes[k]:      # collections without prefix share files: split by identifier
                    t = t[t["PSMId"].astype(str).str.startswith(f"c{k}_")]
                    dd = dd[dd["PSMId"].astype(str).str.startswith(f"c{k}_")]
                ids = list(t["PSMId"]) + list(dd["PSMId"])
                if len(set(ids)) != len(ids):
                    chk.spec_violation("duplicate-rows-at-level", dict(seed=seed, level=level,
                                                                       clause="a PSM occurs twice in a level file"))
                    return
                # T3: one row per spectrum at the PSM level (the table has one target and one decoy per spectrum)
                if level == "psms":
                    scans = df.set_index("SpecId").loc[ids, "ScanNr"]
                    if scans.duplicated().any() or len(ids) != df["ScanNr"].nunique():
                        chk.spec_violation("qvalues-before-competition",
                                           dict(seed=seed, collection=k,
                                                clause="the PSM-level result does not hold exactly one PSM per spectrum"))
                        return
                else:
                    # T3 at the roll-up level: every peptide-level row has won the competition for its spectrum
                    # (it is a row of the PSM-level files of this collection) and represents its peptide alone
                    # (Lean: C04_rollup_qvalues_after_both_competitions)
                    losers = sorted(set(ids) - psm_level_ids)
                    peps = df.set_index("SpecId").loc[ids, "Peptide"]
                    if losers or peps.duplicated().any() or \
                            len(ids) != df.set_index("SpecId").loc[sorted(psm_level_ids), "Peptide"].nunique():
                        chk.spec_violation("qvalues-before-competition-at-peptide-level",
                                           dict(seed=seed, collection=k, rows_that_lost_their_spectrum=losers[:6],
                                                confidence_chunk=chunk, collections=ncoll, format=fmt, desc=desc,
                                                peptide_rows=len(ids), psm_level_rows=len(psm_level_ids),
                                                clause="the peptide-level result holds a PSM that lost the competition "
                                                       "for its spectrum, a peptide twice, or not every peptide of the "
                                                       "PSM-level winners: peptide q-values are not computed on the "
                                                       "winners of both competitions"))
                        return
                    chk.count("T3-peptide-level-checked")
                psm_level_ids = set(ids) if level == "psms" else psm_level_ids
                # decoys counted independently of the files (tie-free scores only: the winners are then determined)
                indep = None
                if coarse is None and level == "psms":
                    lab = df.set_index("SpecId")["Label"]
                    best = {}
                    for sid, scan, v in zip(df["SpecId"], df["ScanNr"], sc):
                        if scan not in best or v > best[scan][0]:
                            best[scan] = (v, sid)
                    indep = sorted(((v, lab[sid] == 1) for v, sid in best.values()), key=lambda x: -x[0])
                    tsc = dict(zip(df["SpecId"], sc))
                for a in ALPHAS:
                    at = int((t["q-value"] <= float(a)).sum()); ad = int((dd["q-value"] <= float(a)).sum())
                    chk.case(None, (seed, k, level, str(a)), sample=dict(seed=seed, level=level, alpha=str(a),
                                                                    accepted_targets=at, accepted_decoys=ad))
                    chk.count("T1-level", level)
                    if at > 0 and not (ad + 1 <= a * at):
                        chk.spec_violation("counting-inequality",
                                           dict(seed=seed, level=level, alpha=str(a), accepted_targets=at,
                                                accepted_decoys=ad, collection=k, collections=ncoll, format=fmt,
                                                desc=desc, score_levels=coarse,
                                                clause="accepted decoys + 1 > alpha x accepted targets"))
                        return
                    if indep is not None and at > 0:
                        worst = min(tsc[i] for i in t["PSMId"][t["q-value"] <= float(a)])
                        nd = sum(1 for v, tg in indep if not tg and v >= worst)
                        if not (nd + 1 <= a * at):
                            chk.spec_violation("counting-inequality-independent-decoy-count",
                                               dict(seed=seed, level=level, alpha=str(a), accepted_targets=at,
                                                    competed_decoys_at_or_above_threshold=nd, collection=k,
                                                    clause="competed decoys (counted from the input table) scoring at "
                                                           "least as well as the worst accepted target, + 1, exceed "
                                                           "alpha x accepted targets"))
                            return


def label_blind_case(chk, rng):
    """T5 on the real code: which PSMs survive the competition (PSM level) and represent each peptide must not depend
    on the labels.  Same table, same scores (coarse, so that the target and the decoy of a spectrum often tie), labels
    swapped inside every spectrum: the surviving PSM ids must be the same sets."""
    import random

    seed = rng.randrange(1 << 30)
    r = random.Random(seed)
    df, _ = simulate(r, rng.choice([60, 120]))
    levels = rng.choice([3, 7, 30])
    score = np.array([float(r.randint(0, levels)) for _ in range(len(df))])
    npep = max(2, len(df) // 6)
    df["Peptide"] = [f"PEPT{r.randrange(npep)}K" for _ in range(len(df))]     # peptides shared between spectra
    chunk = rng.choice([None, None, 7, 25])
    survivors = []
    for flipped in (False, True):
        d2 = df.copy()
        if flipped:
            d2["Label"] = -d2["Label"]
        with P.workdir() as d:
            ds = mkdata.read_dataset(mkdata.write_table(d2, d / "in.pin"))
            out = d / "out"; out.mkdir()
            try:
                with P.pep_kernel(stub=True), P.chunk_sizes(**({"confidence": chunk} if chunk else {})):
                    P.run_assign_confidence([ds], [score], out, prefixes=[None], decoys=True)
            except Exception as e:
                chk.reject("assign_confidence-failed:" + type(e).__name__)
                return
            lv = {}
            for level in ("psms", "peptides"):
                t = P.read_result(out / f"targets.{level}"); dd = P.read_result(out / f"decoys.{level}")
                lv[level] = {**{i: True for i in t["PSMId"]}, **{i: False for i in dd["PSMId"]}}
            survivors.append(lv)
    ties = int(sum(1 for i in range(0, len(df), 2) if score[i] == score[i + 1]))
    chk.case(None, (seed, "label-blind"), sample=dict(seed=seed, kind="label-blind", spectra=len(df) // 2,
                                                      tied_spectra=ties, chunk=chunk))
    chk.count("T5-tied-spectra", min(ties, 10))
    chk.count("T5-chunk", str(chunk))
    # one-sided clause: where the row representing a spectrum / a peptide differs between the two labellings, it is a
    # violation only if that row is a TARGET in at least one of the runs (a tie decided for a target); a decoy in both
    # runs is a conservative tie-break and is tallied.  The peptide level is judged per peptide when the PSM level is
    # identical in both runs (otherwise its differences follow from the PSM level, which is judged).
    ident = {"psms": dict(zip(df["SpecId"], zip(df["ScanNr"], df["ExpMass"]))),
             "peptides": dict(zip(df["SpecId"], df["Peptide"]))}
    for level in ("psms", "peptides"):
        a, b = survivors
        if sorted(a[level]) == sorted(b[level]):
            continue
        if level == "peptides" and sorted(a["psms"]) != sorted(b["psms"]):
            chk.count("T5-peptide-level-follows-psm-level")
            continue
        surv = [{ident[level][i]: (i, tg) for i, tg in x[level].items()} for x in (a, b)]
        bad, cons = c04ext.one_sided(*surv)
        if cons:
            chk.count("T5-conservative-tiebreak", level)
        if bad:
            only_a = sorted(set(a[level]) - set(b[level]))[:6]
            only_b = sorted(set(b[level]) - set(a[level]))[:6]
            chk.spec_violation("competition-depends-on-labels",
                               dict(seed=seed, level=level, score_levels=levels, chunk=chunk,
                                    identifiers=[str(k) for k in bad[:6]],
                                    survive_with_original_labels_only=only_a, survive_with_swapped_labels_only=only_b,
                                    clause="the PSM surviving the target-decoy competition for a spectrum / peptide "
                                           "changes when the labels are swapped although scores and spectra are "
                                           "unchanged, and it is a TARGET in at least one of the two runs: a tie was "
                                           "decided for a target, so incorrect targets are favoured over decoys"))
            return


def model_fingerprint(m):
    est = getattr(m.estimator, "best_estimator_", m.estimator)
    if hasattr(est, "coef_"):
        return np.asarray(est.coef_, dtype=float).tobytes() + np.asarray(est.intercept_, dtype=float).tobytes()
    if hasattr(est, "tree_"):
        st = est.tree_.__getstate__()
        return st["nodes"].tobytes() + st["values"].tobytes()
    return pickle.dumps(est)


def noninterference_case(chk, rng):
    import random
    import mokapot
    from sklearn.tree import DecisionTreeClassifier

    seed = rng.randrange(1 << 30)
    r = random.Random(seed)
    folds = rng.choice([2, 3, 3, 4, 5])      # the property quantifies over folds 2..5
    learner = rng.choice(["svm", "tree"])
    df, _ = simulate(r, rng.choice([400, 600]), pi0=0.4)
    bseed = rng.randrange(10000)

    def make_model():
        if learner == "svm":
            return mokapot.PercolatorModel(train_fdr=0.2, max_iter=2, rng=bseed, override=True)
        return mokapot.Model(DecisionTreeClassifier(random_state=0), train_fdr=0.2, max_iter=2, rng=bseed, override=True)

    with P.workdir() as d:
        p1 = mkdata.write_table(df, d / "a.pin")
        fold_lists = mkdata.read_dataset(p1)._split(folds, np.random.default_rng(bseed))
        f = rng.randrange(folds)
        inside = sorted(int(i) for i in fold_lists[f])
        df2 = df.copy()
        # flip labels and perturb every feature of the rows inside fold f (spectrum keys untouched)
        # (mildly enough that the other folds, which train on these rows, can still be trained)
        for i in inside:
            if r.random() < 0.08:
                df2.loc[i, "Label"] = -df2.loc[i, "Label"]
            for c in ("feat0", "feat1", "feat2"):
                df2.loc[i, c] = df2.loc[i, c] + r.gauss(0.0, 0.3)
        p2 = mkdata.write_table(df2, d / "b.pin")
        # optionally with a training-size cap (sub-sampling must still draw from the other folds only)
        ntrain = len(df) - len(inside)
        cap = rng.choice([None, int(0.6 * ntrain), int(0.9 * ntrain)])
        cpred = rng.choice([len(df) // 2 + 3, len(df) - 1, 97, 10 ** 7])
        try:
            with P.chunk_sizes(predict=cpred):
                _, m1, s1, _ = mokapot.brew(mkdata.read_dataset(p1), make_model(), test_fdr=0.2, folds=folds, rng=bseed,
                                            subset_max_train=cap)
            _, m2, s2, _ = mokapot.brew(mkdata.read_dataset(p2), make_model(), test_fdr=0.2, folds=folds, rng=bseed,
                                        subset_max_train=cap)
        except Exception as e:
            chk.reject("brew-failed:" + type(e).__name__ + ":" + str(e)[:40])
            return
        chk.case(None, (seed, learner, folds, f), sample=dict(seed=seed, learner=learner, folds=folds, fold=f,
                                                            rows_changed=len(inside)))
        chk.count("T2-learner", learner); chk.count("T2-folds", folds); chk.count("T2-cap", "none" if cap is None else "capped")
        if not (m1[f].is_trained and m2[f].is_trained):
            chk.reject("fold-model-untrained")
            return
        if model_fingerprint(m1[f]) != model_fingerprint(m2[f]):
            chk.spec_violation("heldout-interference",
                               dict(seed=seed, learner=learner, folds=folds, fold=f,
                                    clause="changing labels/features of the rows of a fold changed the model that "
                                           "scores that fold"))
            return
        # every PSM must have been scored by the model of its own fold (the one that never saw it), whatever the
        # prediction chunk size: within each fold the returned scores are an increasing function of that model's output
        from mokapot.dataset import LinearPsmDataset
        ds1 = mkdata.read_dataset(p1)
        s1v = np.asarray(s1[0], dtype=float).ravel()
        for g in range(folds):
            rows = sorted(int(i) for i in fold_lists[g])
            sub = df.iloc[rows].copy()
            sub["Label"] = sub["Label"] == 1
            lin = LinearPsmDataset(sub, target_column="Label", spectrum_columns=list(ds1.spectrum_columns),
                                   peptide_column="Peptide", protein_column="Proteins",
                                   feature_columns=list(ds1.feature_columns), copy_data=True)
            raw = np.asarray(m1[g].predict(lin), dtype=float).ravel()
            got = s1v[rows]
            if learner == "tree":
                ok = np.array_equal(raw, got)
            else:
                ok = np.array_equal(np.argsort(np.argsort(raw, kind="stable"), kind="stable"),
                                    np.argsort(np.argsort(got, kind="stable"), kind="stable")) or \
                    np.allclose(np.corrcoef(raw, got)[0, 1], 1.0, atol=1e-9)
            if not ok:
                chk.spec_violation("scored-by-another-model",
                                   dict(seed=seed, learner=learner, folds=folds, fold=g, predict_chunk=cpred,
                                        clause="the returned scores of a fold are not the output of that fold's model "
                                               "(a PSM was scored by a model that may have seen it)"))
                return
        chk.count("T2-predict-chunk", "smaller-than-table" if cpred < len(df) else "whole-table")
        # the fold assignment is a function of the spectrum keys only
        fold_lists2 = mkdata.read_dataset(p2)._split(folds, np.random.default_rng(bseed))
        if [sorted(map(int, x)) for x in fold_lists] != [sorted(map(int, x)) for x in fold_lists2]:
            chk.spec_violation("folds-depend-on-labels",
                               dict(seed=seed, clause="fold assignment changed when only labels/features changed"))


def fdp_search(chk):
    """failing-input search (a search tool only): more cases of the extension kinds with the enlarged budget, then
    the Monte-Carlo FDP of the full pipeline with a memorising learner"""
    c04ties.search(chk)          # exhaustive small tied rankings (every labeling) on the real tdc: cheap, first
    if chk.spec_violations:
        return
    for _ in range(10 * chk.budget_mult):
        c04ext.options_case(chk, chk.rng)
        c04ext.rollup_tool_case(chk, chk.rng)
        c04obj.reset_case(chk, chk.rng)
        c04obj.trainloop_case(chk, chk.rng)
        if chk.spec_violations:
            return
    for _ in range(2 * chk.budget_mult):
        c04ext.pipeline_case(chk, chk.rng)
        if chk.spec_violations:
            return
    import random
    import mokapot
    from sklearn.tree import DecisionTreeClassifier

    alpha = 0.1
    fdps = []
    for rep in range(12 * chk.budget_mult):
        seed = chk.rng.randrange(1 << 30)
        r = random.Random(seed)
        df, truth = simulate(r, 400, pi0=0.6)
        with P.workdir() as d:
            try:
                ds = mkdata.read_dataset(mkdata.write_table(df, d / "in.pin"))
                model = mokapot.Model(DecisionTreeClassifier(random_state=0), train_fdr=0.1, max_iter=2, rng=seed % 1000,
                                      override=True)
                _, _, scores, descs = mokapot.brew(ds, model, test_fdr=0.1, folds=3, rng=seed % 1000)
                out = d / "o"; out.mkdir()
                with P.pep_kernel(stub=True):
                    P.run_assign_confidence([mkdata.read_dataset(d / "in.pin")], list(scores), out, descs=list(descs),
                                            prefixes=[None], decoys=True)
                t = P.read_result(out / "targets.psms")
            except Exception:
                continue
            acc = t[t["q-value"] <= alpha]
            if len(acc):
                fdps.append((seed, float(np.mean([not truth[x] for x in acc["PSMId"]])), len(acc)))
    if len(fdps) >= 6:
        vals = np.array([f for _, f, _ in fdps])
        # only the null targets are false discoveries; the estimate counts them with pi0 <= 1, so mean FDP <= alpha
        se = vals.std(ddof=1) / np.sqrt(len(vals)) + 1e-12
        if vals.mean() > alpha + 4 * se:
            worst = max(fdps, key=lambda x: x[1])
            chk.spec_violation("fdp-exceeds-alpha",
                               dict(alpha=alpha, mean_fdp=float(vals.mean()), se=float(se), replicates=len(vals),
                                    worst_seed=worst[0], worst_fdp=worst[1],
                                    clause="Monte-Carlo false discovery proportion exceeds alpha by more than 4 SE"))


def main(chk, args):
    build = common.build_and_audit("C04")
    if not build.driver_ok:
        chk.finish(build, RULE)
    import time

    walls = {}

    def timed(kind, fn, n):
        t0 = time.time()
        for _ in range(n):
            fn(chk, chk.rng)
        walls[kind] = round(walls.get(kind, 0.0) + time.time() - t0, 2)

    t0 = time.time()
    c04ext.run_corpus(chk)
    walls["corpus"] = round(time.time() - t0, 2)
    quick = chk.tier == "quick"
    n1, n2 = (4, 6) if quick else (40, 60)
    timed("T1-counts", counts_case, n1)
    timed("T2-noninterference", noninterference_case, n2)
    timed("T5-label-blind", label_blind_case, 6 if quick else 60)
    timed("T2x-brew-options", c04ext.options_case, 7 if quick else 120)
    timed("T5x-rollup-tool", c04ext.rollup_tool_case, 5 if quick else 80)
    timed("E2E-cli-pipeline", c04ext.pipeline_case, 2 if quick else 40)
    timed("T2r-one-trained-model", c04obj.reset_case, 5 if quick else 100)
    timed("T2c-train-loop", c04obj.trainloop_case, 10 if quick else 300)
    timed("T4t-tied-ranking-all-labelings", c04ties.ties_case, 50 if quick else 600)
    timed("T4f-tied-level-files", c04ties.ties_file_case, 3 if quick else 40)
    chk.extra["wall_by_case_kind_s"] = walls
    lc = common.leanchecker("C04") if chk.tier == "thorough" else None
    chk.assumptions += [
        "PARTIAL: proved for all inputs are the mechanisms the statement names — the '+1' counting inequality of "
        "every accepted set (T1), held-out non-interference for a learner of any capacity (T2), competition before "
        "estimation (T3), label-blind competition (T5). NOT proved: the expectation bound E[FDP] <= alpha for the merged, per-fold calibrated "
        "cross-validation output (scores of fold g depend on the labels of fold f != g; no such theorem is known on "
        "paper); the classical fixed-ranking bound is attempted separately (Props/C04Fdr.lean when present).",
        "the Monte-Carlo simulation is used only as a failing-input search when a proof or check breaks",
        "ensemble=True is, by design of the option, NOT held-out scoring (every PSM is scored by the mean of all fold "
        "models, k-1 of which were trained on it; Lean: C04_ensemble_eq_spec, C04_ensemble_not_heldout): clause T2 is "
        "claimed for ensemble=False only; the ensemble path is compared with its model, not judged",
        "a list of pre-trained models re-scores the folds of the split drawn from the SAME seed; with another seed the "
        "folds differ and the models have seen the rows they score (documented caller obligation, brew.py:54-59)",
        "the 5 000 000-row loop of make_train_sets is executed by rebuilding the real function from its own code object "
        "with the one constant replaced (harness/c04obj.py: chunk_range); if the constant is not found the cases are "
        "tallied as rejected (T2x/T2c-chunk-range-constant-not-found)",
        "reset path: the scores are calibrated by OnDiskPsmDataset.calibrate_scores (C11's subject); the check decides "
        "WHICH object scored (the one handed in, never fitted in this call) and that the result is an affine image of "
        "its outputs; a non-increasing calibration is tallied (T2r-calibration-not-increasing)",
    ]
    chk.finish(build, RULE, search=fdp_search, lc=lc,
               trusted_extra=["theorems of C01, C02, C03 (imported)", "sklearn LinearSVC / DecisionTreeClassifier determinism"])


def replay(chk, path):
    info = json.loads(open(path).read())
    print(json.dumps(info, indent=1)[:3000])
    sig, case = str(info.get("signature", "")), info.get("case")
    runner = {"T2x": c04ext.options_case, "T5x": c04ext.rollup_tool_case, "T1x": c04ext.rollup_tool_case,
              "E2E": c04ext.pipeline_case, "T2r": c04obj.reset_case, "T2c": c04obj.trainloop_case,
              "T4t": c04ties.ties_case, "T4f": c04ties.ties_file_case}.get(sig[:3])
    if runner is None or not isinstance(case, dict):
        return 0
    common.build_and_audit("C04")
    runner(chk, chk.rng, case=case)
    for s_, i in chk.spec_violations:
        print("REPRODUCED", s_, i.get("clause"))
    return 1 if chk.spec_violations else 0
