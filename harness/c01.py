"""C01 — TDC q-values equal the defining formula (correspondence harness)."""
from __future__ import annotations

import itertools
import json
from fractions import Fraction

import numpy as np
import pandas as pd

import common
from common import Atom, a_int, a_rat, deep, dec, req

RULE = (
    "cases = (score vector from a small value pool so ties are frequent, label vector, direction, dtype, "
    "label encoding and its integer/float width, array layout, entry point — the label entry points receive the labels in "
    "the generated encoding too); distinct = distinct (weak ordering pattern, labels, direction); "
    "non-trivial = at least one tie or at least one decoy above a target; thorough adds the exhaustive sweep "
    "over all weak orderings x labellings for n <= 6 (3 score values) and both directions; besides: refused inputs "
    "(length mismatch, non-0/1 labels, per entry point) against the validated model entry, and the helper "
    "_fdr2qvalue called directly on arrays satisfying its contract against the model of its loop"
)


def rounded(q: Fraction) -> float:
    """the float the code stores for (D+1)/T: np.divide of int arrays into a float32 out-array"""
    out = np.ones(1, dtype=np.float32)
    np.divide(np.array([q.numerator]), np.array([q.denominator]), out=out)
    return float(out[0])


def impl_tdc(scores, labels, desc, entry):
    import mokapot.qvalues as Q

    if entry == "tdc":
        return Q.tdc(scores, labels, desc=desc)
    if entry == "tdc-default-direction":       # documented default: higher scores are better
        assert desc
        return Q.tdc(scores, labels)
    if entry == "qvalues_from_scores":
        assert desc
        return Q.qvalues_from_scores(scores, labels, "tdc")
    if entry == "qvalues_from_scores-default-algorithm":   # documented default: 'tdc'
        assert desc
        return Q.qvalues_from_scores(scores, labels)
    raise AssertionError(entry)


def impl_labels(scores, targets, thr, desc, entry):
    import mokapot.dataset as D

    if entry == "_update_labels":
        return D._update_labels(scores, targets, thr, desc)
    if entry == "_update_labels-default-direction":
        assert desc
        return D._update_labels(scores, targets, thr)
    if entry == "_update_labels-series":      # feature columns arrive as pandas Series
        return D._update_labels(pd.Series(np.asarray(scores, dtype=float)), pd.Series(np.asarray(targets)),
                                thr, desc)
    if entry == "_update_labels-array-scores-series-targets":   # OnDiskPsmDataset.update_labels / update_labels()
        return D._update_labels(np.asarray(scores, dtype=float), pd.Series(np.asarray(targets)), thr, desc)
    if entry == "LinearPsmDataset-column":
        df = pd.DataFrame({"t": targets, "spec": np.arange(len(scores)),
                           "pep": [f"P{i}" for i in range(len(scores))], "f": np.asarray(scores, dtype=float)})
        ds = D.LinearPsmDataset(df, target_column="t", spectrum_columns="spec", peptide_column="pep",
                                enforce_checks=False)
        return ds._update_labels(ds.data.loc[:, "f"], thr, desc)
    if entry == "LinearPsmDataset":
        df = pd.DataFrame(
            {
                "t": targets,
                "spec": np.arange(len(scores)),
                "pep": [f"P{i}" for i in range(len(scores))],
                "f": np.asarray(scores, dtype=float),
            }
        )
        ds = D.LinearPsmDataset(
            df, target_column="t", spectrum_columns="spec", peptide_column="pep", enforce_checks=False
        )
        return ds._update_labels(np.asarray(scores, dtype=float), thr, desc)
    raise AssertionError(entry)


SCORE_DTYPES = ["float64", "float64", "float64", "float32", "float32", "int8", "uint8", "int64", "int16", "uint16",
                "int32", "uint32", "uint64"]
UNSIGNED = ("uint8", "uint16", "uint32", "uint64")
SIGNED = ("int8", "int16", "int32", "int64")
LABEL_KINDS = ["bool", "int01", "float01"]
# width of the 0/1 encodings ("all supported dtypes")
LABEL_DTYPES = {"bool": ["bool"], "int01": ["int64", "int64", "int8", "uint8", "int32", "uint16"],
                "float01": ["float64", "float64", "float32", "float16"]}
LAYOUTS = ["C", "C", "C", "strided", "neg-stride", "readonly"]


def gen_case(rng, nmax):
    n = rng.choice([1, 1, 2, 2, 3, 4, 5, 6, 8, 10, 15, 20, 30, 45, 60])
    n = min(n, nmax)
    pool = rng.randint(1, max(1, n))
    sdt = rng.choice(SCORE_DTYPES)
    vstyle = "small-integers"
    if sdt in UNSIGNED:
        vals = rng.sample(range(0, 200), pool)
        if sdt != "uint8" and rng.random() < 0.5:      # wide values, still exact in float32 (< 2^24)
            m = rng.choice([300] if sdt == "uint16" else [300, 60000])
            vals = [v * m for v in vals]
    elif sdt in SIGNED:
        vals = rng.sample(range(-100, 100), pool)
        if sdt in ("int32", "int64") and rng.random() < 0.5:
            vals = [v * 60000 for v in vals]
        elif sdt == "int16" and rng.random() < 0.5:
            vals = [v * 300 for v in vals]
    elif sdt == "float64" and rng.random() < 0.3:
        # arbitrary doubles (not short dyadic numbers): any magnitude, neighbours one ulp apart; the wire carries
        # the exact rational value of each double
        mag = rng.choice([-300, -30, -6, 0, 0, 4, 30, 300])
        base = [rng.gauss(0, 1) * 10.0 ** mag for _ in range(max(1, pool // 2 + 1))]
        vals = []
        for b in base:
            vals += [b, float(np.nextafter(b, np.inf)), float(np.nextafter(b, -np.inf))][: rng.randint(1, 3)]
        vals = [Fraction(v) for v in vals[:max(pool, 1)]]
        vstyle = "arbitrary-doubles"
    elif sdt == "float64" and rng.random() < 0.6:
        # distinct float64 values that collapse to one float32 value (near-ties must stay distinct)
        base = [Fraction(rng.randint(-40, 40), rng.choice([1, 2, 4])) for _ in range(max(1, pool // 3 + 1))]
        vals = [b + Fraction(k, 2 ** 30) for b in base for k in range(3)][:max(pool, 1)]
        vstyle = "near-ties-2^-30"
    else:
        # dyadic rationals: exactly representable in float32 and float64
        vals = [Fraction(rng.randint(-4000, 4000), rng.choice([1, 2, 4, 8, 16])) for _ in range(pool)]
        vstyle = "dyadic"
    scores = [rng.choice(vals) for _ in range(n)]
    pat = rng.choice(["mixed", "mixed", "mixed", "all_target", "all_decoy", "decoy_top", "target_top"])
    if pat == "mixed":
        p = rng.choice([0.2, 0.5, 0.8])
        labels = [rng.random() < p for _ in range(n)]
    elif pat == "all_target":
        labels = [True] * n
    elif pat == "all_decoy":
        labels = [False] * n
    else:
        order = sorted(range(n), key=lambda i: scores[i], reverse=True)
        k = rng.randint(0, n)
        labels = [None] * n
        for r, i in enumerate(order):
            labels[i] = (r >= k) if pat == "decoy_top" else (r < k)
    desc = rng.random() < 0.5
    lk = rng.choice(LABEL_KINDS)
    return dict(scores=scores, labels=labels, desc=desc, sdtype=sdt, lkind=lk, ldtype=rng.choice(LABEL_DTYPES[lk]),
                layout=rng.choice(LAYOUTS), pat=pat, vstyle=vstyle)


BOUNDARY = [(10, 0, 0.1), (20, 1, 0.1), (30, 2, 0.1), (20, 0, 0.05), (40, 1, 0.05), (10, 2, 0.3), (20, 5, 0.3),
            (100, 0, 0.01), (4, 0, 0.25), (2, 0, 0.5), (10, 0, 0.3), (20, 0, 0.1)]


def gen_boundary_case(rng):
    """a prefix of T targets and D decoys whose FDR (D+1)/T is, as a rational, the decimal threshold (or just
    beside it): the stored single precision q-value and the double precision threshold then differ only by
    rounding, which is where `qvals > eval_fdr` is decided"""
    T, D, thr = rng.choice(BOUNDARY)
    top = [True] * T + [False] * D
    rng.shuffle(top)
    if top[-1] is False and T:                 # the prefix has to end on a target for its FDR to be attained
        i = top.index(True)
        top[i], top[-1] = top[-1], top[i]
    tail = [False] * rng.randint(1, 4) + [rng.random() < 0.3 for _ in range(rng.randint(0, 3))]
    labels = top + tail
    n = len(labels)
    tied = rng.random() < 0.3
    scores = [Fraction(2 * n - (i // 2 if tied else i)) for i in range(n)]
    desc = rng.random() < 0.5
    if not desc:
        scores = [-x for x in scores]
    order = list(range(n))
    rng.shuffle(order)
    return dict(scores=[scores[i] for i in order], labels=[labels[i] for i in order], desc=desc, sdtype="float64",
                lkind="bool", pat="fdr-at-threshold", thr=Fraction(thr))


def gen_eps_case(rng):
    """k targets a hair (distinct in float64, equal in float32) above a decoy: the targets' q-value is
    (0+1)/k only if the near-tie is respected; rounding the scores to single precision merges them with the decoy"""
    k = rng.randint(2, 8)
    base = Fraction(rng.randint(-50, 50), rng.choice([1, 2, 4]))
    eps = Fraction(1, 2 ** rng.choice([28, 30, 33]))
    scores = [base + eps * (i + 1) for i in range(k)] + [base]
    labels = [True] * k + [False]
    for _ in range(rng.randint(0, 4)):
        scores.append(base - rng.randint(1, 9))
        labels.append(rng.random() < 0.5)
    order = list(range(len(scores)))
    rng.shuffle(order)
    desc = rng.random() < 0.5
    if not desc:
        scores = [-x for x in scores]
    return dict(scores=[scores[i] for i in order], labels=[labels[i] for i in order], desc=desc, sdtype="float64",
                lkind="bool", pat="eps-above-decoy")


def with_layout(a, layout):
    """the same values behind another memory layout (views as produced by slicing a bigger table)"""
    if layout == "strided":
        big = np.zeros(2 * len(a) + 1, dtype=a.dtype)
        big[1::2] = a
        return big[1::2]
    if layout == "neg-stride":
        return np.array(a[::-1])[::-1]
    if layout == "readonly":
        b = np.array(a)
        b.flags.writeable = False
        return b
    return a


def label_array(lab, lkind, ldtype=None):
    if lkind == "bool":
        return np.array(lab, dtype=bool)
    if lkind == "int01":
        return np.array([1 if b else 0 for b in lab], dtype=ldtype or np.int64)
    return np.array([1.0 if b else 0.0 for b in lab], dtype=ldtype or np.float64)


def to_arrays(case):
    s = np.array([float(x) for x in case["scores"]], dtype=case["sdtype"])
    assert all(Fraction(float(v)) == Fraction(x) for v, x in zip(s.tolist(), case["scores"])), "score not exact in dtype"
    t = label_array(case["labels"], case["lkind"], case.get("ldtype"))
    lay = case.get("layout", "C")
    return with_layout(s, lay), with_layout(t, lay)


WIRE_KIND = {"bool": "bool", "int01": "int", "float01": "float"}


def wire_labels(lab, lkind):
    if lkind == "bool":
        return [bool(b) for b in lab]
    return [1 if b else 0 for b in lab] if lkind == "int01" else [Fraction(1 if b else 0) for b in lab]


def pattern_key(case):
    vals = sorted(set(case["scores"]))
    rk = tuple(vals.index(s) for s in case["scores"])
    return (rk, tuple(case["labels"]), case["desc"])


def nontrivial(case):
    s, l = case["scores"], case["labels"]
    if len(set(s)) < len(s):
        return True
    best_first = sorted(zip(s, l), key=lambda x: x[0], reverse=case["desc"])
    seen_decoy = False
    for _, lab in best_first:
        if not lab:
            seen_decoy = True
        elif seen_decoy:
            return True
    return False


def wire_psms(case):
    return [[Fraction(x), bool(l)] for x, l in zip(case["scores"], case["labels"])]


def eval_cases(chk, cases, entries_q, with_labels=True):
    """run impl and model on `cases`; classify disagreements"""
    lines = []
    for c in cases:
        ps = wire_psms(c)
        lines.append(req("tdc", c["desc"], ps))
        lines.append(req("qspec", c["desc"], ps))
        lines.append(req("labels", c["desc"], c["thr"], ps))
        lines.append(req("tdcarr", c["desc"], ps))
    resp = common.driver_batch(lines)
    for k, c in enumerate(cases):
        m = deep(a_rat, dec(resp[4 * k]))
        sp = deep(a_rat, dec(resp[4 * k + 1]))
        ml = deep(a_int, dec(resp[4 * k + 2]))
        ma = dec(resp[4 * k + 3])
        ma = deep(a_rat, ma) if isinstance(ma, list) else ma
        s, t = to_arrays(c)
        s0, t0 = s.copy(), t.copy()
        entry = c["entry"]
        try:
            q = np.asarray(impl_tdc(s, t, c["desc"], entry), dtype=float)
        except Exception as e:  # the property promises a value for every n >= 1
            chk.spec_violation(
                "exception:" + type(e).__name__, dict(case=jsonable(c), error=repr(e), clause="tdc raised")
            )
            continue
        chk.case(None, pattern_key(c) if nontrivial(c) else None,
                 sample=dict(scores=[str(x) for x in c["scores"]], labels=c["labels"], desc=c["desc"],
                             impl=[float(x) for x in q], model=[str(x) for x in m]))
        chk.count("n", min(len(s), 64) if len(s) < 10 else (len(s) // 10) * 10)
        chk.count("sdtype", c["sdtype"])
        chk.count("lkind", c["lkind"])
        chk.count("ldtype", c.get("ldtype", "default"))
        chk.count("layout", c.get("layout", "C"))
        chk.count("entry", entry)
        chk.count("desc", c["desc"])
        chk.count("pattern", c["pat"])
        chk.count("score-values", c.get("vstyle", c["pat"]))
        chk.count("ties", len(set(c["scores"])) < len(c["scores"]))
        exp_spec = [rounded(x) for x in sp]
        exp_model = [rounded(x) for x in m]
        got = [float(x) for x in q]
        spec_ok = len(got) == len(exp_spec) and all(a == b for a, b in zip(got, exp_spec))
        model_ok = len(got) == len(exp_model) and all(a == b for a, b in zip(got, exp_model))
        arr_ok = isinstance(ma, list) and len(got) == len(ma) and all(a == rounded(b) for a, b in zip(got, ma))
        if not (np.array_equal(s, s0) and np.array_equal(t, t0)):
            chk.spec_violation(f"input-modified:{entry}",
                               dict(case=jsonable(c), clause="tdc changed the caller's score or label array"))
        if not spec_ok:
            chk.spec_violation(
                f"qvalue-formula:{entry}",
                dict(case=jsonable(c), impl=got, expected=[str(x) for x in sp],
                     clause="q-value differs from the defining formula"),
            )
        elif not model_ok:
            chk.corr_break("tdc", dict(case=jsonable(c), impl=got, model=[str(x) for x in m]))
        elif not arr_ok:
            chk.corr_break("tdcarr", dict(case=jsonable(c), impl=got,
                                          model=[str(x) for x in ma] if isinstance(ma, list) else ma))
        if not with_labels:
            continue
        # labels: the label entry points get the labels in the generated encoding, not only as bool
        thr = float(c["thr"])
        lentry = c["lentry"]
        llk = c.get("llkind", "bool")
        lt = with_layout(label_array(c["labels"], llk, c.get("lldtype")), c.get("layout", "C"))
        # one signature per entry point for everything that goes wrong with a 0/1 int / float labelling
        lsig = f"labels:{lentry}" if llk == "bool" else f"labels-nonbool-encoding:{lentry.split('-default')[0]}"
        try:
            lab = impl_labels(s, lt, thr, c["desc"], lentry)
        except Exception as e:
            chk.spec_violation(lsig if llk != "bool" else f"exception-labels:{type(e).__name__}",
                               dict(case=jsonable(c), error=repr(e), clause="_update_labels raised"))
            continue
        chk.count("lentry", lentry)
        chk.count("labels-encoding-at-label-entry", f"{llk}:{c.get('lldtype', 'bool')}")
        lab = [int(x) for x in lab]
        boundary = any((rounded(x) > thr) != (x > c["thr"]) for x in sp)
        if boundary:
            # q-value and threshold differ by less than the rounding of the stored (single precision) q-value:
            # the labels are "derived from them", i.e. from the q-values as returned (checked above to be the
            # rounded formula), so that is what is compared here
            chk.float_boundary += 1
            exp_r = [(-1 if not l else (1 if rounded(x) <= thr else 0)) for l, x in zip(c["labels"], sp)]
            if lab != exp_r:
                chk.spec_violation(
                    f"labels-vs-returned-q:{lentry}",
                    dict(case=jsonable(c), impl=lab, expected=exp_r,
                         clause="training labels differ from the ones derived from the returned q-values"))
            continue
        exp = [(-1 if not l else (1 if x <= c["thr"] else 0)) for l, x in zip(c["labels"], sp)]
        if lab != exp:
            chk.spec_violation(
                lsig,
                dict(case=jsonable(c), impl=lab, expected=exp, clause="training labels differ from spec"),
            )
        elif lab != ml:
            chk.corr_break("labels", dict(case=jsonable(c), impl=lab, model=ml))


def jsonable(c):
    d = dict(c)
    d["scores"] = [str(x) for x in c["scores"]]
    d["thr"] = str(c.get("thr"))
    return d


def from_json(d):
    c = dict(d)
    c["scores"] = [Fraction(x) for x in d["scores"]]
    c["thr"] = Fraction(d["thr"])
    return c


def decorate(rng, c):
    c["thr"] = Fraction(rng.choice([0.01, 0.05, 0.1, 0.25, 0.5, 0.75, 1.0, 0.3]))
    c["entry"] = "qvalues_from_scores" if (c["desc"] and rng.random() < 0.3) else "tdc"
    if c["desc"] and c["entry"] == "tdc" and rng.random() < 0.25:
        c["entry"] = "tdc-default-direction"
    if c["entry"] == "qvalues_from_scores" and rng.random() < 0.3:
        c["entry"] = "qvalues_from_scores-default-algorithm"
    c["lentry"] = rng.choice(["_update_labels", "LinearPsmDataset", "_update_labels-series", "LinearPsmDataset-column",
                              "_update_labels-array-scores-series-targets"])
    if c["lentry"] == "_update_labels" and c["desc"] and rng.random() < 0.3:
        c["lentry"] = "_update_labels-default-direction"
    # encoding of the labels handed to the label entry point (half of the cases: the case's own encoding)
    if rng.random() < 0.5:
        c["llkind"], c["lldtype"] = c["lkind"], c.get("ldtype")
    else:
        c["llkind"], c["lldtype"] = "bool", "bool"
    return c


def malformed(chk, rng, n):
    """label arrays outside {0,1} must be rejected (ValueError); model: declabels"""
    import mokapot.qvalues as Q

    lines, cases = [], []
    for _ in range(n):
        k = rng.randint(1, 8)
        kind = rng.choice(["int", "float"])
        vals = [rng.choice([0, 1, 1, 0, 2, -1, 3]) for _ in range(k)]
        if kind == "float":
            vals = [Fraction(v) if rng.random() < 0.8 else Fraction(1, 2) for v in vals]
        cases.append((kind, vals))
        lines.append(req("declabels", Atom(kind), vals))
    resp = common.driver_batch(lines)
    for (kind, vals), r in zip(cases, resp):
        arr = np.array([float(v) for v in vals], dtype=np.int64 if kind == "int" else np.float64)
        try:
            Q.tdc(np.arange(len(vals), dtype=float), arr)
            got = "ok"
        except ValueError:
            got = "reject-value"
        except Exception as e:
            got = "other:" + type(e).__name__
        exp = "reject-value" if r.strip() == "reject-value" else "ok"
        ok_spec = (got == "reject-value") == (not all(v in (0, 1) for v in vals))
        chk.case(None, ("malformed", kind, tuple(vals)))
        chk.count("malformed", got)
        if not ok_spec:
            chk.spec_violation("label-decoding", dict(kind=kind, labels=[str(v) for v in vals], impl=got,
                                                      clause="non-0/1 labels accepted or 0/1 labels rejected"))
        elif got != exp:
            chk.corr_break("declabels", dict(kind=kind, labels=[str(v) for v in vals], impl=got, model=exp))


# ----------------------------------------------------------------------------------------------
# refused inputs: the validation block of tdc (qvalues.py:84-102) seen through every entry point,
# against the validated model entry (`tdcchk` / `labelschk`)
# ----------------------------------------------------------------------------------------------
V_ENTRIES = ["tdc", "qvalues_from_scores", "_update_labels", "_update_labels-series-targets"]


def gen_vcase(rng):
    n = rng.choice([1, 2, 2, 3, 4, 5, 8, 12])
    kind = rng.choice(["length", "length", "labels", "both", "valid"])
    lk = rng.choice(LABEL_KINDS)
    m = n
    if kind in ("length", "both"):
        m = rng.choice([k for k in (1, 2, 3, 4, 5, 6, 8, 9, 12, 13, 20) if k != n])
    labels = [rng.random() < 0.5 for _ in range(m)]
    raw = wire_labels(labels, lk)
    if kind in ("labels", "both"):
        if lk == "bool":
            lk = rng.choice(["int01", "float01"])
            raw = wire_labels(labels, lk)
        j = rng.randrange(m)
        bad = rng.choice([2, -1, 3, 255]) if lk == "int01" else rng.choice([Fraction(1, 2), Fraction(2), Fraction(-1)])
        raw[j] = bad
    scores = [Fraction(rng.randint(-20, 20), rng.choice([1, 2])) for _ in range(n)]
    return dict(scores=scores, raw=raw, lkind=lk, desc=rng.random() < 0.5, thr=Fraction(rng.choice([0.25, 0.5, 0.3])),
                ventry=rng.choice(V_ENTRIES), vkind=kind)


def vjson(c):
    return dict(c, scores=[str(x) for x in c["scores"]], raw=[str(x) for x in c["raw"]], thr=str(c["thr"]))


def vfrom_json(d):
    c = dict(d)
    c["scores"] = [Fraction(x) for x in d["scores"]]
    c["raw"] = [(x == "True") if d["lkind"] == "bool" else Fraction(x) for x in d["raw"]]
    if d["lkind"] == "int01":
        c["raw"] = [int(x) for x in c["raw"]]
    c["thr"] = Fraction(d["thr"])
    return c


def eval_vcases(chk, cases):
    import mokapot.qvalues as Q
    import mokapot.dataset as D

    lines = []
    for c in cases:
        ve = c["ventry"]
        if ve == "qvalues_from_scores":
            c["desc"] = True
        if ve in ("tdc", "qvalues_from_scores"):
            lines.append(req("tdcchk", c["desc"], c["scores"], Atom(WIRE_KIND[c["lkind"]]), c["raw"]))
        else:
            lines.append(req("labelschk", c["desc"], c["thr"], ve.endswith("series-targets"), c["scores"],
                             Atom(WIRE_KIND[c["lkind"]]), c["raw"]))
    resp = common.driver_batch(lines)
    for c, r in zip(cases, resp):
        ve = c["ventry"]
        model = dec(r)
        s = np.array([float(x) for x in c["scores"]], dtype=float)
        dt = {"bool": bool, "int01": np.int64, "float01": np.float64}[c["lkind"]]
        t = np.array([float(x) if c["lkind"] == "float01" else x for x in c["raw"]], dtype=dt)
        try:
            if ve == "tdc":
                out = Q.tdc(s, t, desc=c["desc"])
            elif ve == "qvalues_from_scores":
                out = Q.qvalues_from_scores(s, t, "tdc")
            elif ve == "_update_labels":
                out = D._update_labels(s, t, float(c["thr"]), c["desc"])
            else:
                out = D._update_labels(s, pd.Series(t), float(c["thr"]), c["desc"])
            got = "ok"
        except ValueError as e:
            msg = str(e)
            got = "reject-length" if "same length" in msg else ("reject-labels" if "should be boolean" in msg
                                                                 else "ValueError:" + msg[:60])
        except Exception as e:
            got = "other:" + type(e).__name__
        series = ve.endswith("series-targets")
        # independent statement of what must be refused
        bad_labels = (not series) and not all(x in (0, 1, True, False) for x in c["raw"])
        mismatch = len(c["raw"]) != len(c["scores"])
        want = "reject-labels" if bad_labels else ("reject-length" if mismatch else "ok")
        chk.case(None, ("refused", ve, c["vkind"], c["lkind"], len(c["scores"]), len(c["raw"])))
        chk.count("validation", f"{ve}:{c['vkind']}:{got}")
        mod = model if isinstance(model, str) else "ok"
        if got != want:
            if want == "ok" and c["lkind"] != "bool" and ve.startswith("_update_labels"):
                chk.spec_violation(f"labels-nonbool-encoding:{'_update_labels' if ve == '_update_labels' else ve}",
                                   dict(vcase=vjson(c), impl=got, expected=want, clause="_update_labels raised"))
            elif got == "ok" or want == "ok":
                chk.spec_violation(f"input-validation:{ve}",
                                   dict(vcase=vjson(c), impl=got, expected=want,
                                        clause="arrays of different length / labels outside {0,1} accepted, or a "
                                               "well-formed input refused"))
            else:
                chk.corr_break("tdcchk", dict(vcase=vjson(c), impl=got, model=mod, expected=want))
            continue
        if mod != got:
            chk.corr_break("tdcchk" if ve in ("tdc", "qvalues_from_scores") else "labelschk",
                           dict(vcase=vjson(c), impl=got, model=mod))
            continue
        if got != "ok":
            chk.reject(got)
            continue
        # accepted: values against the model of the validated entry (exact labelling known: 0/1 or astype(bool))
        if ve in ("tdc", "qvalues_from_scores"):
            mq = [rounded(a_rat(x)) for x in model]
            if [float(x) for x in out] != mq:
                chk.corr_break("tdcchk", dict(vcase=vjson(c), impl=[float(x) for x in out], model=model))
        else:
            ml = [a_int(x) for x in model]
            lab = [int(x) for x in out]
            if lab != ml:
                # decide spec vs correspondence with the direct restatement on the 0/1 labelling
                if all(x in (0, 1, True, False) for x in c["raw"]):
                    chk.spec_violation(f"labels-nonbool-encoding:{ve}" if c["lkind"] != "bool" else f"labels:{ve}", dict(vcase=vjson(c), impl=lab, expected=ml,
                                                             clause="training labels differ from spec"))
                else:
                    chk.corr_break("labelschk", dict(vcase=vjson(c), impl=lab, model=ml))


def validation(chk, rng, n):
    eval_vcases(chk, [gen_vcase(rng) for _ in range(n)])


# ----------------------------------------------------------------------------------------------
# the helper _fdr2qvalue called directly (anchor 2), on arrays satisfying its contract:
# one length, `num_total` cumulative (strictly decreasing once flipped), group sizes >= 1 covering the arrays
# ----------------------------------------------------------------------------------------------
def gen_fcase(rng):
    n = rng.choice([1, 2, 3, 4, 5, 6, 8, 12, 20])
    counts = []
    left = n
    while left:
        c = rng.randint(1, min(left, rng.choice([1, 2, 4])))
        counts.append(c)
        left -= c
    style = rng.choice(["any", "any", "rising", "falling", "above-one"])
    fdr = [Fraction(rng.randint(1, 40), 16) for _ in range(n)]     # exact in float32; values above 1 occur
    if style == "rising":
        fdr.sort()
    elif style == "falling":
        fdr.sort(reverse=True)
    elif style == "above-one":
        fdr = [x + 1 for x in fdr]
    top = n + rng.randint(0, 5)
    nt = sorted(rng.sample(range(1, top + n + 1), n), reverse=True)
    return dict(fdr=fdr, nt=nt, counts=counts, style=style)


def eval_fcases(chk, cases):
    import mokapot.qvalues as Q

    resp = common.driver_batch([req("fdr2q", c["fdr"], c["nt"], c["counts"]) for c in cases])
    for c, r in zip(cases, resp):
        model = dec(r)
        n = len(c["fdr"])
        # the array types tdc itself passes: flipped float32 / int64 views, ascending unique values, int64 counts
        fdr = np.flip(np.array([float(x) for x in reversed(c["fdr"])], dtype=np.float32))
        nt = np.flip(np.array(list(reversed(c["nt"])), dtype=np.int64))
        met = np.arange(len(c["counts"]), dtype=np.float64)
        ind = np.array(c["counts"], dtype=np.int64)
        js = dict(fcase=dict(fdr=[str(x) for x in c["fdr"]], nt=c["nt"], counts=c["counts"], style=c["style"]))
        try:
            out = [float(x) for x in Q._fdr2qvalue(fdr, nt, met, ind)]
        except Exception as e:
            chk.corr_break("fdr2q", dict(js, impl="exception " + repr(e)[:200], model=model))
            continue
        chk.case(None, ("fdr2q", tuple(c["fdr"]), tuple(c["nt"]), tuple(c["counts"])))
        chk.count("fdr2q-direct", c["style"])
        chk.count("fdr2q-groups", min(len(c["counts"]), 8))
        # independent restatement: running minimum (started at 1) of the FDR standing where num_total peaks in each group
        exp, lo, pos = [], Fraction(1), 0
        for g in c["counts"]:
            seg = list(range(pos, pos + g))
            j = max(seg, key=lambda i: (c["nt"][i], -i))
            lo = min(lo, c["fdr"][j])
            exp += [lo] * g
            pos += g
        expf = [float(x) for x in exp]
        if out != expf:
            # the helper is not an entry point of the property: a difference is a broken correspondence,
            # the failing-input search then looks for an effect on tdc
            chk.corr_break("fdr2q", dict(js, impl=out, model=model, expected=[str(x) for x in exp]))
        elif not isinstance(model, list) or [float(a_rat(x)) for x in model] != out:
            chk.corr_break("fdr2q", dict(js, impl=out, model=model))


def fdr2q_direct(chk, rng, n):
    eval_fcases(chk, [gen_fcase(rng) for _ in range(n)])


def exhaustive(chk, nmax, nvals):
    cases = []
    for n in range(1, nmax + 1):
        for sc in itertools.product(range(nvals), repeat=n):
            # canonical weak orderings only up to value renaming is not needed: small enough
            for lab in itertools.product([False, True], repeat=n):
                for desc in (True, False):
                    cases.append(dict(scores=[Fraction(x) for x in sc], labels=list(lab), desc=desc,
                                      sdtype="float64", lkind="bool", pat="exhaustive",
                                      thr=Fraction(1, 2), entry="tdc", lentry="_update_labels"))
    for i in range(0, len(cases), 20000):
        eval_cases(chk, cases[i:i + 20000], None, with_labels=(i % 3 == 0))
    chk.extra["exhaustive_sweep"] = f"all score vectors over {nvals} values x labellings x directions, n<={nmax}: {len(cases)} cases"


def unsupported_dtypes(chk):
    """score dtypes numba has no kernel for (half and extended precision): the code refuses them; outside
    "all supported dtypes", tallied so that the boundary is on record"""
    import mokapot.qvalues as Q

    for dt in ("float16", "longdouble"):
        try:
            q = Q.tdc(np.array([3, 2, 2, 1], dtype=dt), np.array([True, False, True, True]))
            chk.count("score-dtype-outside", f"{dt}:accepted")
            if [float(x) for x in q] != [rounded(Fraction(2, 3))] * 4:
                chk.spec_violation(f"qvalue-formula:tdc:{dt}", dict(dtype=dt, impl=[float(x) for x in q],
                                                                   clause="q-value differs from the defining formula"))
        except Exception as e:
            chk.reject(f"score-dtype-{dt}:{type(e).__name__}")
    # integer dtypes are cast to float32 (qvalues.py:106-107): an order embedding below 2^24 only. On record:
    # what the code does beyond ("small-integer dtype" is read as excluding such values; see GAPS-C01.md G1-d)
    big = np.array([2 ** 24 + 2, 2 ** 24 + 1, 2 ** 24], dtype=np.int64)
    q = [float(x) for x in Q.tdc(big, np.array([True, True, False]))]
    chk.count("int-scores-above-2^24", "kept-apart" if q == [0.5, 0.5, 1.0] else "merged-by-float32-cast")


def pinned_cases():
    """hand-picked inputs run first on every seed: 0/1 integer and float labellings handed to the label entry
    points as arrays (the decoy of row 1 was labelled +1 by `new_labels[~targets] = -1` on an integer array),
    one-row inputs, a group of ties straddling the threshold in both directions"""
    out = []
    base = dict(sdtype="float64", layout="C", pat="pinned", vstyle="pinned", entry="tdc")
    for lk, ldt in (("int01", "int64"), ("int01", "uint8"), ("int01", "int8"), ("float01", "float64"),
                    ("float01", "float32"), ("bool", "bool")):
        for lentry in ("_update_labels", "_update_labels-series", "LinearPsmDataset",
                       "_update_labels-array-scores-series-targets"):
            for desc in (True, False):
                sc = [5, 4, 3, 2, 1] if desc else [1, 2, 3, 4, 5]
                out.append(dict(base, scores=[Fraction(x) for x in sc], labels=[True, False, True, True, False],
                                desc=desc, lkind=lk, ldtype=ldt, llkind=lk, lldtype=ldt, lentry=lentry,
                                thr=Fraction(1, 2)))
        out.append(dict(base, scores=[Fraction(7)], labels=[True], desc=True, lkind=lk, ldtype=ldt, llkind=lk,
                        lldtype=ldt, lentry="_update_labels", thr=Fraction(1)))
        out.append(dict(base, scores=[Fraction(7)], labels=[False], desc=False, lkind=lk, ldtype=ldt, llkind=lk,
                        lldtype=ldt, lentry="_update_labels", thr=Fraction(1)))
        out.append(dict(base, scores=[Fraction(x) for x in (3, 3, 2, 2, 2, 1)],
                        labels=[True, True, True, False, True, False], desc=True, lkind=lk, ldtype=ldt, llkind=lk,
                        lldtype=ldt, lentry="_update_labels", thr=Fraction(1, 2)))
    return out


def corpus_cases():
    p = common.VERIF / "harness" / "corpus" / "C01.json"
    if p.exists():
        return pinned_cases() + [from_json(d) for d in json.loads(p.read_text())]
    return pinned_cases()


def search(chk):
    """failing-input search used when a proof or the correspondence is broken"""
    rng = chk.rng
    cases = [decorate(rng, gen_case(rng, 12)) for _ in range(3000)]
    eval_cases(chk, cases, None)
    if not chk.spec_violations:
        exhaustive(chk, 5, 3)


def minimise(chk):
    """shrink the first spec violation to a minimal row set"""
    if not chk.spec_violations:
        return
    sig, info = chk.spec_violations[0]
    if "case" not in info or not sig.startswith(("qvalue-formula", "labels")):
        return
    c0 = from_json(info["case"])
    rows = list(zip(c0["scores"], c0["labels"]))

    def fails(rs):
        sub = common.Check(chk.prop, chk.tier, chk.seed)
        c = dict(c0, scores=[r[0] for r in rs], labels=[r[1] for r in rs])
        try:
            eval_cases(sub, [c], None)
        except Exception:
            return False
        return any(s == sig for s, _ in sub.spec_violations)

    small = common.shrink_list(rows, fails)
    sub = common.Check(chk.prop, chk.tier, chk.seed)
    eval_cases(sub, [dict(c0, scores=[r[0] for r in small], labels=[r[1] for r in small])], None)
    for s, i in sub.spec_violations:
        if s == sig:
            chk.spec_violations[0] = (s, dict(i, shrunk_from_rows=len(rows)))
            break


def main(chk, args):
    build = common.build_and_audit("C01")
    if not build.driver_ok:
        chk.finish(build, RULE)
    rng = chk.rng
    cases = corpus_cases()
    n = 600 if chk.tier == "quick" else 6000
    cases += [decorate(rng, gen_case(rng, 60)) for _ in range(n)]
    for _ in range(n // 6):
        c = decorate(rng, gen_eps_case(rng))
        k = sum(c["labels"][i] for i in range(len(c["labels"])))
        c["thr"] = Fraction(rng.choice([0.3, 0.5, 0.6, 0.75]))
        cases.append(c)
    for _ in range(n // 10):
        c = gen_boundary_case(rng)
        thr = c["thr"]
        c = decorate(rng, c)
        c["thr"] = thr
        cases.append(c)
    eval_cases(chk, cases, None)
    malformed(chk, rng, 100 if chk.tier == "quick" else 1000)
    validation(chk, rng, 120 if chk.tier == "quick" else 1500)
    fdr2q_direct(chk, rng, 200 if chk.tier == "quick" else 3000)
    unsupported_dtypes(chk)
    if chk.tier == "thorough":
        exhaustive(chk, 6, 3)
    else:
        exhaustive(chk, 4, 3)
    minimise(chk)
    lc = None
    if chk.tier == "thorough":      # both property modules
        lc1, lc2 = common.leanchecker("C01"), common.leanchecker("C01Arr")
        lc = (lc1[0] and lc2[0], lc1[1] + lc2[1])
    chk.assumptions += [
        "IEEE rounding of the single division (cum_decoys+1)/cum_targets is reproduced with the same numpy "
        "primitive (np.divide into a float32 out-array); the model works over exact rationals",
        "np.argsort / np.unique / cumsum behave as documented; numba executes _fdr2qvalue as written",
        "scores are finite and exactly representable in their dtype (integers, dyadic rationals); integer scores "
        "stay below 2^24 in magnitude (tdc casts integer dtypes to float32, larger values would merge)",
        "_fdr2qvalue is driven directly only on arrays satisfying its contract (one length, cumulative num_total, "
        "group sizes >= 1 covering the arrays)",
    ]
    chk.finish(build, RULE, search=search, lc=lc,
               trusted_extra=["numpy argsort/unique/cumsum/divide, numba njit"])


def replay(chk, path):
    info = json.loads(open(path).read())
    if "vcase" in info:
        common.build_and_audit("C01")
        eval_vcases(chk, [vfrom_json(info["vcase"])])
        for sig, i in chk.spec_violations:
            print("REPRODUCED", sig, json.dumps(i)[:1500])
        return 1 if chk.spec_violations else 0
    if "case" not in info:
        print(json.dumps(info, indent=1)[:3000])
        return 0
    common.build_and_audit("C01")
    c = from_json(info["case"])
    eval_cases(chk, [c], None)
    for sig, i in chk.spec_violations:
        print("REPRODUCED", sig, json.dumps(i)[:1500])
    return 1 if chk.spec_violations else 0
