"""C01 — TDC q-values equal the defining formula (correspondence harness)."""
from __future__ import annotations

import itertools
import json
from fractions import Fraction

import numpy as np
import pandas as pd

import common
from common import Atom, a_int, a_rat, deep, dec, req

RULE = (
    "cases = (score vector from a small value pool so ties are frequent, label vector, direction, dtype, "
    "label encoding and its integer/float width, array layout, entry point — the label entry points receive the labels in "
    "the generated encoding too); distinct = distinct (weak ordering pattern, labels, direction); "
    "non-trivial = at least one tie or at least one decoy above a target; thorough adds the exhaustive sweep "
    "over all weak orderings x labellings for n <= 6 (3 score values) and both directions; besides: refused inputs "
    "(length mismatch, non-0/1 labels, per entry point) against the validated model entry, and the helper "
    "_fdr2qvalue called directly on arrays satisfying its contract against the model of its loop; second pass: "
    "tdc with the score dtype explicit (float32 cast of integer dtypes, sort key) against the model entry `tdcentry` "
    "on every case, with value styles at the ends of each integer dtype's range, beyond 2^24 (there: model of the cast "
    "only), zeros of both signs, single precision neighbours; long inputs (n up to 70000 quick / 300000 thorough, "
    "more than 65535 targets or decoys) against a restatement of the formula that is itself compared with the "
    "driver's qSpec on every short case; four threads calling tdc at once; sessions of many calls on one "
    "LinearPsmDataset (columns of every dtype, both directions, default threshold); pandas Series in their own "
    "dtype (nullable extension dtypes too) under non-default row indexes; results of earlier calls must stay "
    "untouched by later ones; labels must be exactly +1/0/-1; third pass: one call per run with more than 2^24 targets "
    "(a histogram of 1-40 tie groups expanded to about 17 M rows in block/reversed/strided/shuffled order; thorough and "
    "odd quick seeds: also more than 2^24 decoys, about 34 M rows) against the closed formula on the histogram in int64 "
    "arithmetic and against the model on the histogram (`qblocks`, proved to be the defining formula of every input "
    "with that histogram); the model with int64 counts (`tdccnt`) on every case; numpy's float32 and int64 running "
    "sums against the count-type models (`cumcount`); integer scores beyond 2^24 against the formula (float64 cast)"
)


def rounded(q: Fraction) -> float:
    """the float the code stores for (D+1)/T: np.divide of int arrays into a float32 out-array"""
    out = np.ones(1, dtype=np.float32)
    np.divide(np.array([q.numerator]), np.array([q.denominator]), out=out)
    return float(out[0])


def impl_tdc(scores, labels, desc, entry):
    import mokapot.qvalues as Q

    if entry == "tdc":
        return Q.tdc(scores, labels, desc=desc)
    if entry == "tdc-default-direction":       # documented default: higher scores are better
        assert desc
        return Q.tdc(scores, labels)
    if entry == "qvalues_from_scores":
        assert desc
        return Q.qvalues_from_scores(scores, labels, "tdc")
    if entry == "qvalues_from_scores-default-algorithm":   # documented default: 'tdc'
        assert desc
        return Q.qvalues_from_scores(scores, labels)
    raise AssertionError(entry)


EXT_DTYPE = {"int8": "Int8", "uint8": "UInt8", "int16": "Int16", "uint16": "UInt16", "int32": "Int32", "uint32": "UInt32",
             "int64": "Int64", "uint64": "UInt64", "float32": "Float32", "float64": "Float64", "bool": "boolean",
             "float16": "Float32"}


def series_index(kind, n, perm=None):
    """row labels of a pandas Series / DataFrame as they come out of slicing, filtering, concatenating tables"""
    if kind == "reversed":
        return list(range(n - 1, -1, -1))
    if kind == "dup":
        return [i // 2 for i in range(n)]
    if kind == "str":
        return [f"r{(i * 7) % n}-{i}" for i in range(n)]
    if kind == "offset":
        return [i + 1000 for i in range(n)]
    if kind == "shuffled":
        return list(perm)
    return list(range(n))


def impl_labels(scores, targets, thr, desc, entry, c=None):
    import mokapot.dataset as D

    c = c or {}
    if entry == "_update_labels-default-fdr":       # documented default threshold: 0.01
        assert thr == 0.01
        return D._update_labels(scores, targets, desc=desc)
    if entry == "_update_labels-series-native":
        # a column as it sits in a table: its own dtype (integer feature columns, float32, pandas' nullable
        # extension dtypes), any row index; the target Series with the same or with an unrelated index
        n = len(scores)
        idx = series_index(c.get("sindex", "default"), n, c.get("sperm"))
        ss = pd.Series(np.asarray(scores), index=idx)
        ts = pd.Series(np.asarray(targets), index=idx if c.get("tindex_same", True) else None)
        if c.get("sext"):
            ss = ss.astype(EXT_DTYPE[str(ss.dtype)])
            ts = ts.astype(EXT_DTYPE[str(ts.dtype)])
        return D._update_labels(ss, ts, thr, desc)
    if entry == "LinearPsmDataset-default-fdr":
        assert thr == 0.01
        df = pd.DataFrame({"t": targets, "spec": np.arange(len(scores)),
                           "pep": [f"P{i}" for i in range(len(scores))], "f": np.asarray(scores, dtype=float)})
        ds = D.LinearPsmDataset(df, target_column="t", spectrum_columns="spec", peptide_column="pep",
                                enforce_checks=False)
        return ds._update_labels(np.asarray(scores, dtype=float), desc=desc)
    if entry == "_update_labels":
        return D._update_labels(scores, targets, thr, desc)
    if entry == "_update_labels-default-direction":
        assert desc
        return D._update_labels(scores, targets, thr)
    if entry == "_update_labels-series":      # feature columns arrive as pandas Series
        return D._update_labels(pd.Series(np.asarray(scores, dtype=float)), pd.Series(np.asarray(targets)),
                                thr, desc)
    if entry == "_update_labels-array-scores-series-targets":   # OnDiskPsmDataset.update_labels / update_labels()
        return D._update_labels(np.asarray(scores, dtype=float), pd.Series(np.asarray(targets)), thr, desc)
    if entry == "LinearPsmDataset-column":
        df = pd.DataFrame({"t": targets, "spec": np.arange(len(scores)),
                           "pep": [f"P{i}" for i in range(len(scores))], "f": np.asarray(scores, dtype=float)})
        ds = D.LinearPsmDataset(df, target_column="t", spectrum_columns="spec", peptide_column="pep",
                                enforce_checks=False)
        return ds._update_labels(ds.data.loc[:, "f"], thr, desc)
    if entry == "LinearPsmDataset":
        df = pd.DataFrame(
            {
                "t": targets,
                "spec": np.arange(len(scores)),
                "pep": [f"P{i}" for i in range(len(scores))],
                "f": np.asarray(scores, dtype=float),
            }
        )
        ds = D.LinearPsmDataset(
            df, target_column="t", spectrum_columns="spec", peptide_column="pep", enforce_checks=False
        )
        return ds._update_labels(np.asarray(scores, dtype=float), thr, desc)
    raise AssertionError(entry)


SCORE_DTYPES = ["float64", "float64", "float64", "float32", "float32", "int8", "uint8", "int64", "int16", "uint16",
                "int32", "uint32", "uint64"]
UNSIGNED = ("uint8", "uint16", "uint32", "uint64")
SIGNED = ("int8", "int16", "int32", "int64")
INT_RANGE = {"int8": (-2 ** 7, 2 ** 7 - 1), "uint8": (0, 2 ** 8 - 1), "int16": (-2 ** 15, 2 ** 15 - 1),
             "uint16": (0, 2 ** 16 - 1), "int32": (-2 ** 31, 2 ** 31 - 1), "uint32": (0, 2 ** 32 - 1),
             "int64": (-2 ** 63, 2 ** 63 - 1), "uint64": (0, 2 ** 64 - 1)}
LABEL_KINDS = ["bool", "int01", "float01"]
# width of the 0/1 encodings ("all supported dtypes")
LABEL_DTYPES = {"bool": ["bool"], "int01": ["int64", "int64", "int8", "uint8", "int32", "uint16"],
                "float01": ["float64", "float64", "float32", "float16"]}
LAYOUTS = ["C", "C", "C", "strided", "neg-stride", "readonly"]


def gen_case(rng, nmax):
    n = rng.choice([1, 1, 2, 2, 3, 4, 5, 6, 8, 10, 15, 20, 30, 45, 60])
    n = min(n, nmax)
    pool = rng.randint(1, max(1, n))
    sdt = rng.choice(SCORE_DTYPES)
    vstyle = "small-integers"
    negzero = []
    style_roll = rng.random()
    if sdt in INT_RANGE and style_roll < 0.22:
        # the ends of the dtype's range next to small values: -128 / 255 / -2^31 / 2^63-1 / 2^64-1 ... (the float32
        # cast of tdc rounds the widest ones but merges nothing here; negating them in the integer dtype would wrap)
        lo, hi = INT_RANGE[sdt]
        ends = [lo, hi, 0] + ([lo + 1, hi - 1] if hi < 2 ** 16 else [])
        vals = rng.sample(ends, rng.randint(1, min(len(ends), max(1, pool)))) + \
            [v for v in rng.sample(range(-100, 100), max(0, pool - 2)) if lo <= v <= hi]
        vals = [Fraction(v) for v in dict.fromkeys(vals)]
        vstyle = "dtype-extremes"
    elif sdt in ("int32", "uint32", "int64", "uint64") and style_roll < 0.34:
        # integers beyond 2^24 (single precision would merge them; tdc casts integer dtypes to float64 since /repo
        # 36ef8db, so they must stay apart) and, for the 64-bit dtypes, beyond 2^53 (there the float64 cast merges:
        # outside "small-integer dtype", compared with the model of the cast only, see `embeds`)
        base = rng.choice([2 ** 24, 2 ** 25, 2 ** 30, 3 * 2 ** 24])
        if sdt in ("int64", "uint64") and rng.random() < 0.4:
            base = rng.choice([2 ** 40, 2 ** 53, 2 ** 62])
        sign = -1 if (sdt in SIGNED and rng.random() < 0.4) else 1
        vals = [Fraction(sign * (base + rng.randint(-6, 6) * rng.choice([1, 1, 2, 64]))) for _ in range(max(2, pool))]
        vals += [Fraction(rng.randint(0, 50))]
        vstyle = "int-beyond-2^24"
    elif sdt in ("float64", "float32") and style_roll < 0.1:
        # zeros of both signs (equal as numbers: one tie group) among small values
        vals = [Fraction(0)] * 2 + [Fraction(rng.randint(-3, 3), rng.choice([1, 2])) for _ in range(max(0, pool - 1))]
        vstyle = "signed-zeros"
    elif sdt == "float32" and style_roll < 0.45:
        # single precision neighbours one ulp apart, any magnitude down to the subnormal range
        mag = rng.choice([-41, -30, -6, -1, 0, 0, 4, 30])
        vals = []
        for _ in range(max(1, pool // 2 + 1)):
            b = np.float32(rng.gauss(0, 1) * 10.0 ** mag)
            vals += [b, np.nextafter(b, np.float32(np.inf)), np.nextafter(b, np.float32(-np.inf))][: rng.randint(1, 3)]
        vals = [Fraction(float(v)) for v in vals[:max(pool, 1)]]
        vstyle = "float32-ulp-neighbours"
    elif sdt in UNSIGNED:
        vals = rng.sample(range(0, 200), pool)
        if sdt != "uint8" and rng.random() < 0.5:      # wide values, still exact in float32 (< 2^24)
            m = rng.choice([300] if sdt == "uint16" else [300, 60000])
            vals = [v * m for v in vals]
    elif sdt in SIGNED:
        vals = rng.sample(range(-100, 100), pool)
        if sdt in ("int32", "int64") and rng.random() < 0.5:
            vals = [v * 60000 for v in vals]
        elif sdt == "int16" and rng.random() < 0.5:
            vals = [v * 300 for v in vals]
    elif sdt == "float64" and rng.random() < 0.3:
        # arbitrary doubles (not short dyadic numbers): any magnitude, neighbours one ulp apart; the wire carries
        # the exact rational value of each double
        mag = rng.choice([-300, -30, -6, 0, 0, 4, 30, 300])
        base = [rng.gauss(0, 1) * 10.0 ** mag for _ in range(max(1, pool // 2 + 1))]
        vals = []
        for b in base:
            vals += [b, float(np.nextafter(b, np.inf)), float(np.nextafter(b, -np.inf))][: rng.randint(1, 3)]
        vals = [Fraction(v) for v in vals[:max(pool, 1)]]
        vstyle = "arbitrary-doubles"
    elif sdt == "float64" and rng.random() < 0.6:
        # distinct float64 values that collapse to one float32 value (near-ties must stay distinct)
        base = [Fraction(rng.randint(-40, 40), rng.choice([1, 2, 4])) for _ in range(max(1, pool // 3 + 1))]
        vals = [b + Fraction(k, 2 ** 30) for b in base for k in range(3)][:max(pool, 1)]
        vstyle = "near-ties-2^-30"
    else:
        # dyadic rationals: exactly representable in float32 and float64
        vals = [Fraction(rng.randint(-4000, 4000), rng.choice([1, 2, 4, 8, 16])) for _ in range(pool)]
        vstyle = "dyadic"
    scores = [rng.choice(vals) for _ in range(n)]
    if vstyle == "signed-zeros" or (sdt in ("float64", "float32") and rng.random() < 0.05):
        negzero = [i for i, x in enumerate(scores) if x == 0 and rng.random() < 0.5]
    pat = rng.choice(["mixed", "mixed", "mixed", "all_target", "all_decoy", "decoy_top", "target_top"])
    if pat == "mixed":
        p = rng.choice([0.2, 0.5, 0.8])
        labels = [rng.random() < p for _ in range(n)]
    elif pat == "all_target":
        labels = [True] * n
    elif pat == "all_decoy":
        labels = [False] * n
    else:
        order = sorted(range(n), key=lambda i: scores[i], reverse=True)
        k = rng.randint(0, n)
        labels = [None] * n
        for r, i in enumerate(order):
            labels[i] = (r >= k) if pat == "decoy_top" else (r < k)
    desc = rng.random() < 0.5
    lk = rng.choice(LABEL_KINDS)
    return dict(scores=scores, labels=labels, desc=desc, sdtype=sdt, lkind=lk, ldtype=rng.choice(LABEL_DTYPES[lk]),
                layout=rng.choice(LAYOUTS), pat=pat, vstyle=vstyle, negzero=negzero)


BOUNDARY = [(10, 0, 0.1), (20, 1, 0.1), (30, 2, 0.1), (20, 0, 0.05), (40, 1, 0.05), (10, 2, 0.3), (20, 5, 0.3),
            (100, 0, 0.01), (4, 0, 0.25), (2, 0, 0.5), (10, 0, 0.3), (20, 0, 0.1),
            # FDR strictly between two plausible thresholds (0.005 / 0.01 / 0.02 / 0.05): tells a changed default apart
            (30, 0, 0.05), (60, 1, 0.05), (120, 0, 0.01), (64, 0, 0.02)]


def gen_boundary_case(rng):
    """a prefix of T targets and D decoys whose FDR (D+1)/T is, as a rational, the decimal threshold (or just
    beside it): the stored single precision q-value and the double precision threshold then differ only by
    rounding, which is where `qvals > eval_fdr` is decided"""
    T, D, thr = rng.choice(BOUNDARY)
    top = [True] * T + [False] * D
    rng.shuffle(top)
    if top[-1] is False and T:                 # the prefix has to end on a target for its FDR to be attained
        i = top.index(True)
        top[i], top[-1] = top[-1], top[i]
    tail = [False] * rng.randint(1, 4) + [rng.random() < 0.3 for _ in range(rng.randint(0, 3))]
    labels = top + tail
    n = len(labels)
    tied = rng.random() < 0.3
    scores = [Fraction(2 * n - (i // 2 if tied else i)) for i in range(n)]
    desc = rng.random() < 0.5
    if not desc:
        scores = [-x for x in scores]
    order = list(range(n))
    rng.shuffle(order)
    return dict(scores=[scores[i] for i in order], labels=[labels[i] for i in order], desc=desc, sdtype="float64",
                lkind="bool", pat="fdr-at-threshold", thr=Fraction(thr))


def gen_eps_case(rng):
    """k targets a hair (distinct in float64, equal in float32) above a decoy: the targets' q-value is
    (0+1)/k only if the near-tie is respected; rounding the scores to single precision merges them with the decoy"""
    k = rng.randint(2, 8)
    base = Fraction(rng.randint(-50, 50), rng.choice([1, 2, 4]))
    eps = Fraction(1, 2 ** rng.choice([28, 30, 33]))
    scores = [base + eps * (i + 1) for i in range(k)] + [base]
    labels = [True] * k + [False]
    for _ in range(rng.randint(0, 4)):
        scores.append(base - rng.randint(1, 9))
        labels.append(rng.random() < 0.5)
    order = list(range(len(scores)))
    rng.shuffle(order)
    desc = rng.random() < 0.5
    if not desc:
        scores = [-x for x in scores]
    return dict(scores=[scores[i] for i in order], labels=[labels[i] for i in order], desc=desc, sdtype="float64",
                lkind="bool", pat="eps-above-decoy")


def with_layout(a, layout):
    """the same values behind another memory layout (views as produced by slicing a bigger table)"""
    if layout == "strided":
        big = np.zeros(2 * len(a) + 1, dtype=a.dtype)
        big[1::2] = a
        return big[1::2]
    if layout == "neg-stride":
        return np.array(a[::-1])[::-1]
    if layout == "readonly":
        b = np.array(a)
        b.flags.writeable = False
        return b
    return a


def label_array(lab, lkind, ldtype=None):
    if lkind == "bool":
        return np.array(lab, dtype=bool)
    if lkind == "int01":
        return np.array([1 if b else 0 for b in lab], dtype=ldtype or np.int64)
    return np.array([1.0 if b else 0.0 for b in lab], dtype=ldtype or np.float64)


def score_array(case):
    """the score array in the case's dtype, every value exact (integers are built from Python ints: the ends of the
    64-bit ranges are not doubles); `negzero` positions hold -0.0"""
    if case["sdtype"] in INT_RANGE:
        s = np.array([int(x) for x in case["scores"]], dtype=case["sdtype"])
        assert all(int(v) == x for v, x in zip(s.tolist(), case["scores"])), "score not exact in dtype"
        return s
    s = np.array([float(x) for x in case["scores"]], dtype=case["sdtype"])
    assert all(Fraction(float(v)) == Fraction(x) for v, x in zip(s.tolist(), case["scores"])), "score not exact in dtype"
    for i in case.get("negzero", ()):
        assert s[i] == 0
        s[i] = -0.0
    return s


def to_arrays(case):
    s = score_array(case)
    t = label_array(case["labels"], case["lkind"], case.get("ldtype"))
    lay = case.get("layout", "C")
    return with_layout(s, lay), with_layout(t, lay)


WIRE_KIND = {"bool": "bool", "int01": "int", "float01": "float"}


def wire_labels(lab, lkind):
    if lkind == "bool":
        return [bool(b) for b in lab]
    return [1 if b else 0 for b in lab] if lkind == "int01" else [Fraction(1 if b else 0) for b in lab]


def pattern_key(case):
    vals = sorted(set(case["scores"]))
    rk = tuple(vals.index(s) for s in case["scores"])
    return (rk, tuple(case["labels"]), case["desc"])


def nontrivial(case):
    s, l = case["scores"], case["labels"]
    if len(set(s)) < len(s):
        return True
    best_first = sorted(zip(s, l), key=lambda x: x[0], reverse=case["desc"])
    seen_decoy = False
    for _, lab in best_first:
        if not lab:
            seen_decoy = True
        elif seen_decoy:
            return True
    return False


def wire_psms(case):
    return [[Fraction(x), bool(l)] for x, l in zip(case["scores"], case["labels"])]


NOPS = 8     # driver lines per case in eval_cases

_ROUNDED = {}


def rounded_c(q: Fraction) -> float:
    """`rounded` with a cache (long inputs have few distinct q-values)"""
    r = _ROUNDED.get(q)
    if r is None:
        r = _ROUNDED[q] = rounded(q)
    return r


def py_spec(scores, labels, desc):
    """the defining formula restated for long inputs (the driver's qSpec is cubic): every distinct score t is a
    threshold, T(t) / D(t) = targets / decoys scoring at or better than t, FDR(t) = (D+1)/T read as 1 when T = 0,
    q(s) = min(1, min of FDR(t) over the thresholds t at or worse than s).  Exact arithmetic; compared with the
    driver's `qspec` on every short case of the run (`qspec-restatement`)."""
    ks = [(-x if desc else x) for x in scores]            # smaller = better
    nt, nd = {}, {}
    for k, l in zip(ks, labels):
        if l:
            nt[k] = nt.get(k, 0) + 1
        else:
            nd[k] = nd.get(k, 0) + 1
    order = sorted(set(ks))                               # best threshold first
    T = D = 0
    fdr = []
    for k in order:
        T += nt.get(k, 0)
        D += nd.get(k, 0)
        fdr.append(Fraction(D + 1, T) if T else Fraction(1))
    q, lo = {}, Fraction(1)
    for k, f in zip(reversed(order), reversed(fdr)):      # thresholds at or worse than k
        lo = min(lo, f)
        q[k] = lo
    return [q[k] for k in ks]


def expected_labels(labels, sp, thr: Fraction):
    """(labels by the exact rule q <= thr, labels from the q-values as stored in single precision, boundary?)"""
    exact = [(-1 if not l else (1 if x <= thr else 0)) for l, x in zip(labels, sp)]
    stored = [(-1 if not l else (1 if rounded_c(x) <= float(thr) else 0)) for l, x in zip(labels, sp)]
    return exact, stored, exact != stored


def outside_labels(chk, c, s, me, mle):
    """integer scores the float32 cast merges: `_update_labels` on arrays against the model of the entry only"""
    lt = with_layout(label_array(c["labels"], c.get("llkind", "bool"), c.get("lldtype")), c.get("layout", "C"))
    try:
        lab = [float(x) for x in impl_labels(s, lt, float(c["thr"]), c["desc"], c["lentry"], c)]
    except Exception as e:
        chk.corr_break("labelsentry", dict(case=jsonable(c), impl="exception " + repr(e)[:200], model=mle))
        return
    chk.count("lentry", c["lentry"] + "(outside)")
    if not isinstance(me, list) or not isinstance(mle, list):
        chk.corr_break("labelsentry", dict(case=jsonable(c), impl=lab, model=mle))
        return
    stored = [(-1 if not l else (1 if rounded(x) <= float(c["thr"]) else 0)) for l, x in zip(c["labels"], me)]
    if lab != [float(x) for x in stored] or (stored == mle) != (lab == [float(x) for x in mle]):
        chk.corr_break("labelsentry", dict(case=jsonable(c), impl=lab, model=mle, from_model_q=stored))


def eval_cases(chk, cases, entries_q, with_labels=True):
    """run impl and model on `cases`; classify disagreements"""
    lines = []
    for c in cases:
        ps = wire_psms(c)
        lines.append(req("tdc", c["desc"], ps))
        lines.append(req("qspec", c["desc"], ps))
        lines.append(req("labels", c["desc"], c["thr"], ps))
        lines.append(req("tdcarr", c["desc"], ps))
        isint = c["sdtype"] in INT_RANGE
        wl = wire_labels(c["labels"], c["lkind"])
        ws = [int(x) for x in c["scores"]] if isint else [Fraction(x) for x in c["scores"]]
        # tdc as called, with the score dtype and the label encoding explicit (cast, sort key, validation)
        lines.append(req("tdcentry", c["desc"], Atom("int" if isint else "float"), ws, Atom(WIRE_KIND[c["lkind"]]), wl))
        lines.append(req("f64ofint", sorted(set(ws)) if isint else []))
        lines.append(req("labelsentry", c["desc"], c["thr"], Atom("int" if isint else "float"), ws,
                         Atom(WIRE_KIND[c.get("llkind", "bool")]), wire_labels(c["labels"], c.get("llkind", "bool"))))
        # tdc as called with the count dtype explicit (int64 counts: the code as it is); exhaustive sweep: every 4th
        if c["pat"] != "exhaustive" or len(lines) % 32 == 7:
            lines.append(req("tdccnt", Atom("i64"), 0, c["desc"], Atom("int" if isint else "float"), ws,
                             Atom(WIRE_KIND[c["lkind"]]), wl))
        else:
            lines.append(req("f64ofint", []))
    resp = common.driver_batch(lines)
    prev_q = prev_lab = None
    for k, c in enumerate(cases):
        m = deep(a_rat, dec(resp[NOPS * k]))
        sp = deep(a_rat, dec(resp[NOPS * k + 1]))
        ml = deep(a_int, dec(resp[NOPS * k + 2]))
        ma = dec(resp[NOPS * k + 3])
        ma = deep(a_rat, ma) if isinstance(ma, list) else ma
        me = dec(resp[NOPS * k + 4])
        me = deep(a_rat, me) if isinstance(me, list) else me
        mcast = deep(a_int, dec(resp[NOPS * k + 5]))
        mle = dec(resp[NOPS * k + 6])
        mle = deep(a_int, mle) if isinstance(mle, list) else mle
        mc = dec(resp[NOPS * k + 7])
        mc = deep(a_rat, mc) if isinstance(mc, list) and (c["pat"] != "exhaustive" or (NOPS * k + 7) % 32 == 7) else None
        s, t = to_arrays(c)
        s0, t0 = s.copy(), t.copy()
        entry = c["entry"]
        # integer scores: does the float64 cast of tdc (as modelled by f64OfInt) keep the order of the scores present?
        # If not (distinct scores beyond 2^53 merged) the input is outside "small-integer dtype": the code is then
        # compared with the model of the entry only, nothing is claimed about the formula
        embeds = True
        if c["sdtype"] in INT_RANGE:
            present = sorted(set(int(x) for x in c["scores"]))
            embeds = all(a < b for a, b in zip(mcast, mcast[1:]))
            npcast = [int(v) for v in np.array(present, dtype=c["sdtype"]).astype(np.float64).tolist()]
            if npcast != mcast:
                chk.corr_break("f64ofint", dict(case=jsonable(c), impl=[str(v) for v in npcast],
                                                model=[str(v) for v in mcast]))
            chk.count("int-cast", "order-kept" if embeds else "merges-distinct-scores(outside)")
        try:
            qobj = impl_tdc(s, t, c["desc"], entry)
            q = np.asarray(qobj, dtype=float)
        except Exception as e:  # the property promises a value for every n >= 1
            chk.spec_violation(
                "exception:" + type(e).__name__, dict(case=jsonable(c), error=repr(e), clause="tdc raised")
            )
            continue
        # object re-use: the array handed out by the previous call must not be touched by this one
        if prev_q is not None and not np.array_equal(prev_q[0], prev_q[1]):
            chk.spec_violation(f"result-overwritten-by-later-call:{prev_q[2]}",
                               dict(case=jsonable(c), earlier=[float(x) for x in prev_q[1]],
                                    now=[float(x) for x in np.asarray(prev_q[0], dtype=float)],
                                    clause="the q-values returned by an earlier call changed when tdc was called again"))
        prev_q = (qobj, np.array(qobj, copy=True), entry)
        if not embeds:
            chk.case(None, ("outside", pattern_key(c)))
            chk.count("sdtype", c["sdtype"])
            chk.count("score-values", c.get("vstyle", c["pat"]))
            got = [float(x) for x in q]
            if not (isinstance(me, list) and got == [rounded(b) for b in me]):
                chk.corr_break("tdcentry", dict(case=jsonable(c), impl=got,
                                                model=[str(x) for x in me] if isinstance(me, list) else me))
            if mc is not None and mc != me:
                chk.corr_break("tdccnt", dict(case=jsonable(c), impl=got, model=[str(x) for x in mc]))
            if c.get("lentry") in ("_update_labels", "_update_labels-default-direction") and with_labels:
                outside_labels(chk, c, s, me, mle)
            elif c.get("lentry") == "_update_labels-series-native" and with_labels and \
                    all(abs(x) < 2 ** 53 for x in c["scores"]):
                # a column reaches tdc as float64 (`scores.values.astype(float)`), exact below 2^53: the model of the
                # Series branch takes the scores as they are, so the formula on the integers is what it returns
                lt = label_array(c["labels"], c.get("llkind", "bool"), c.get("lldtype"))
                exact, stored, boundary = expected_labels(c["labels"], sp, c["thr"])
                try:
                    lab = [float(x) for x in impl_labels(s, lt, float(c["thr"]), c["desc"], c["lentry"], c)]
                except Exception as e:
                    lab = "exception " + repr(e)[:200]
                chk.count("lentry", c["lentry"] + "(wide-integer-column)")
                if lab != [float(x) for x in (stored if boundary else exact)]:
                    chk.corr_break("labels-wide-integer-column",
                                   dict(case=jsonable(c), impl=lab, model=stored if boundary else exact))
            continue
        chk.case(None, pattern_key(c) if nontrivial(c) else None,
                 sample=dict(scores=[str(x) for x in c["scores"]], labels=c["labels"], desc=c["desc"],
                             impl=[float(x) for x in q], model=[str(x) for x in m]))
        chk.count("n", min(len(s), 64) if len(s) < 10 else (len(s) // 10) * 10)
        chk.count("sdtype", c["sdtype"])
        chk.count("lkind", c["lkind"])
        chk.count("ldtype", c.get("ldtype", "default"))
        chk.count("layout", c.get("layout", "C"))
        chk.count("entry", entry)
        chk.count("desc", c["desc"])
        chk.count("pattern", c["pat"])
        chk.count("score-values", c.get("vstyle", c["pat"]))
        chk.count("ties", len(set(c["scores"])) < len(c["scores"]))
        exp_spec = [rounded(x) for x in sp]
        exp_model = [rounded(x) for x in m]
        got = [float(x) for x in q]
        spec_ok = len(got) == len(exp_spec) and all(a == b for a, b in zip(got, exp_spec))
        model_ok = len(got) == len(exp_model) and all(a == b for a, b in zip(got, exp_model))
        arr_ok = isinstance(ma, list) and len(got) == len(ma) and all(a == rounded(b) for a, b in zip(got, ma))
        ent_ok = isinstance(me, list) and len(got) == len(me) and all(a == rounded(b) for a, b in zip(got, me))
        if (c["pat"] != "exhaustive" or k % 8 == 0) and py_spec(c["scores"], c["labels"], c["desc"]) != sp:
            # self-check of the harness: the restatement used for long inputs against the driver's qSpec
            chk.corr_break("qspec-restatement", dict(case=jsonable(c), model=[str(x) for x in sp]))
        if not (np.array_equal(s, s0) and np.array_equal(t, t0)):
            chk.spec_violation(f"input-modified:{entry}",
                               dict(case=jsonable(c), clause="tdc changed the caller's score or label array"))
        if not spec_ok:
            chk.spec_violation(
                f"qvalue-formula:{entry}",
                dict(case=jsonable(c), impl=got, expected=[str(x) for x in sp],
                     clause="q-value differs from the defining formula"),
            )
        elif not model_ok:
            chk.corr_break("tdc", dict(case=jsonable(c), impl=got, model=[str(x) for x in m]))
        elif not arr_ok:
            chk.corr_break("tdcarr", dict(case=jsonable(c), impl=got,
                                          model=[str(x) for x in ma] if isinstance(ma, list) else ma))
        elif not ent_ok:
            chk.corr_break("tdcentry", dict(case=jsonable(c), impl=got,
                                            model=[str(x) for x in me] if isinstance(me, list) else me))
        elif mc is not None and not (len(got) == len(mc) and all(a == rounded(b) for a, b in zip(got, mc))):
            chk.corr_break("tdccnt", dict(case=jsonable(c), impl=got, model=[str(x) for x in mc]))
        if mc is not None:
            chk.count("count-dtype-model", "int64")
        if not with_labels:
            continue
        # labels: the label entry points get the labels in the generated encoding, not only as bool
        thr = float(c["thr"])
        lentry = c["lentry"]
        llk = c.get("llkind", "bool")
        lt = with_layout(label_array(c["labels"], llk, c.get("lldtype")), c.get("layout", "C"))
        # one signature per entry point for everything that goes wrong with a 0/1 int / float labelling
        lsig = f"labels:{lentry}" if llk == "bool" else f"labels-nonbool-encoding:{lentry.split('-default')[0]}"
        lt0 = lt.copy()
        try:
            labobj = impl_labels(s, lt, thr, c["desc"], lentry, c)
        except Exception as e:
            chk.spec_violation(lsig if llk != "bool" else f"exception-labels:{type(e).__name__}",
                               dict(case=jsonable(c), error=repr(e), clause="_update_labels raised"))
            continue
        chk.count("lentry", lentry)
        chk.count("labels-encoding-at-label-entry", f"{llk}:{c.get('lldtype', 'bool')}")
        if "series-native" in lentry:
            chk.count("series-index", c.get("sindex", "default"))
            chk.count("series-ext-dtype", bool(c.get("sext")))
        if not (np.array_equal(s, s0) and np.array_equal(lt, lt0)):
            chk.spec_violation(f"input-modified:{lentry}",
                               dict(case=jsonable(c), clause="_update_labels changed the caller's score or label array"))
        if prev_lab is not None and not np.array_equal(prev_lab[0], prev_lab[1]):
            chk.spec_violation(f"result-overwritten-by-later-call:{prev_lab[2]}",
                               dict(case=jsonable(c), earlier=[float(x) for x in prev_lab[1]],
                                    clause="the labels returned by an earlier call changed when _update_labels was called again"))
        prev_lab = (labobj, np.array(labobj, copy=True), lentry)
        if len(labobj) != len(c["labels"]) or any(float(x) not in (-1.0, 0.0, 1.0) for x in labobj):
            chk.spec_violation(f"labels-values:{lentry}",
                               dict(case=jsonable(c), impl=[float(x) for x in labobj],
                                    clause="a training label other than +1, 0, -1 (or not one per PSM)"))
            continue
        lab = [int(x) for x in labobj]
        boundary = any((rounded(x) > thr) != (x > c["thr"]) for x in sp)
        if boundary:
            # q-value and threshold differ by less than the rounding of the stored (single precision) q-value:
            # the labels are "derived from them", i.e. from the q-values as returned (checked above to be the
            # rounded formula), so that is what is compared here
            chk.float_boundary += 1
            exp_r = [(-1 if not l else (1 if rounded(x) <= thr else 0)) for l, x in zip(c["labels"], sp)]
            if lab != exp_r:
                chk.spec_violation(
                    f"labels-vs-returned-q:{lentry}",
                    dict(case=jsonable(c), impl=lab, expected=exp_r,
                         clause="training labels differ from the ones derived from the returned q-values"))
            continue
        exp = [(-1 if not l else (1 if x <= c["thr"] else 0)) for l, x in zip(c["labels"], sp)]
        if lab != exp:
            chk.spec_violation(
                lsig,
                dict(case=jsonable(c), impl=lab, expected=exp, clause="training labels differ from spec"),
            )
        elif lab != ml:
            chk.corr_break("labels", dict(case=jsonable(c), impl=lab, model=ml))
        elif lab != mle:
            chk.corr_break("labelsentry", dict(case=jsonable(c), impl=lab, model=mle))


def jsonable(c):
    d = dict(c)
    d["scores"] = [str(x) for x in c["scores"]]
    d["thr"] = str(c.get("thr"))
    return d


def from_json(d):
    c = dict(d)
    c["scores"] = [Fraction(x) for x in d["scores"]]
    c["thr"] = Fraction(d["thr"])
    return c


def decorate(rng, c):
    c["thr"] = Fraction(rng.choice([0.01, 0.05, 0.1, 0.25, 0.5, 0.75, 1.0, 0.3]))
    c["entry"] = "qvalues_from_scores" if (c["desc"] and rng.random() < 0.3) else "tdc"
    if c["desc"] and c["entry"] == "tdc" and rng.random() < 0.25:
        c["entry"] = "tdc-default-direction"
    if c["entry"] == "qvalues_from_scores" and rng.random() < 0.3:
        c["entry"] = "qvalues_from_scores-default-algorithm"
    c["lentry"] = rng.choice(["_update_labels", "LinearPsmDataset", "_update_labels-series", "LinearPsmDataset-column",
                              "_update_labels-array-scores-series-targets"])
    if c["lentry"] == "_update_labels" and c["desc"] and rng.random() < 0.3:
        c["lentry"] = "_update_labels-default-direction"
    r = rng.random()
    if r < 0.15:
        c["lentry"] = "_update_labels-series-native"
        c["sindex"] = rng.choice(["default", "reversed", "dup", "str", "offset", "shuffled"])
        if c["sindex"] == "shuffled":
            c["sperm"] = rng.sample(range(len(c["scores"])), len(c["scores"]))
        c["tindex_same"] = rng.random() < 0.6
        c["sext"] = rng.random() < 0.35
    elif r < 0.22:
        # the threshold left to its documented default
        c["lentry"] = rng.choice(["_update_labels-default-fdr", "LinearPsmDataset-default-fdr"])
        c["thr"] = Fraction(0.01)
    elif r < 0.30:
        c["thr"] = Fraction(rng.choice([0.0, 2.0, 1e-9, 0.999999]))     # nothing / everything accepted, just inside
    # encoding of the labels handed to the label entry point (half of the cases: the case's own encoding)
    if rng.random() < 0.5:
        c["llkind"], c["lldtype"] = c["lkind"], c.get("ldtype")
    else:
        c["llkind"], c["lldtype"] = "bool", "bool"
    return c


def malformed(chk, rng, n):
    """label arrays outside {0,1} must be rejected (ValueError); model: declabels"""
    import mokapot.qvalues as Q

    lines, cases = [], []
    for _ in range(n):
        k = rng.randint(1, 8)
        kind = rng.choice(["int", "float"])
        vals = [rng.choice([0, 1, 1, 0, 2, -1, 3]) for _ in range(k)]
        if kind == "float":
            vals = [Fraction(v) if rng.random() < 0.8 else Fraction(1, 2) for v in vals]
        cases.append((kind, vals))
        lines.append(req("declabels", Atom(kind), vals))
    resp = common.driver_batch(lines)
    for (kind, vals), r in zip(cases, resp):
        arr = np.array([float(v) for v in vals], dtype=np.int64 if kind == "int" else np.float64)
        try:
            Q.tdc(np.arange(len(vals), dtype=float), arr)
            got = "ok"
        except ValueError:
            got = "reject-value"
        except Exception as e:
            got = "other:" + type(e).__name__
        exp = "reject-value" if r.strip() == "reject-value" else "ok"
        ok_spec = (got == "reject-value") == (not all(v in (0, 1) for v in vals))
        chk.case(None, ("malformed", kind, tuple(vals)))
        chk.count("malformed", got)
        if not ok_spec:
            chk.spec_violation("label-decoding", dict(kind=kind, labels=[str(v) for v in vals], impl=got,
                                                      clause="non-0/1 labels accepted or 0/1 labels rejected"))
        elif got != exp:
            chk.corr_break("declabels", dict(kind=kind, labels=[str(v) for v in vals], impl=got, model=exp))


# ----------------------------------------------------------------------------------------------
# refused inputs: the validation block of tdc (qvalues.py:84-102) seen through every entry point,
# against the validated model entry (`tdcchk` / `labelschk`)
# ----------------------------------------------------------------------------------------------
V_ENTRIES = ["tdc", "qvalues_from_scores", "_update_labels", "_update_labels-series-targets"]


def gen_vcase(rng):
    n = rng.choice([1, 2, 2, 3, 4, 5, 8, 12])
    kind = rng.choice(["length", "length", "labels", "both", "valid"])
    lk = rng.choice(LABEL_KINDS)
    m = n
    if kind in ("length", "both"):
        m = rng.choice([k for k in (1, 2, 3, 4, 5, 6, 8, 9, 12, 13, 20) if k != n])
    labels = [rng.random() < 0.5 for _ in range(m)]
    raw = wire_labels(labels, lk)
    if kind in ("labels", "both"):
        if lk == "bool":
            lk = rng.choice(["int01", "float01"])
            raw = wire_labels(labels, lk)
        j = rng.randrange(m)
        bad = rng.choice([2, -1, 3, 255]) if lk == "int01" else rng.choice([Fraction(1, 2), Fraction(2), Fraction(-1)])
        raw[j] = bad
    scores = [Fraction(rng.randint(-20, 20), rng.choice([1, 2])) for _ in range(n)]
    return dict(scores=scores, raw=raw, lkind=lk, desc=rng.random() < 0.5, thr=Fraction(rng.choice([0.25, 0.5, 0.3])),
                ventry=rng.choice(V_ENTRIES), vkind=kind)


def vjson(c):
    return dict(c, scores=[str(x) for x in c["scores"]], raw=[str(x) for x in c["raw"]], thr=str(c["thr"]))


def vfrom_json(d):
    c = dict(d)
    c["scores"] = [Fraction(x) for x in d["scores"]]
    c["raw"] = [(x == "True") if d["lkind"] == "bool" else Fraction(x) for x in d["raw"]]
    if d["lkind"] == "int01":
        c["raw"] = [int(x) for x in c["raw"]]
    c["thr"] = Fraction(d["thr"])
    return c


def eval_vcases(chk, cases):
    import mokapot.qvalues as Q
    import mokapot.dataset as D

    lines = []
    for c in cases:
        ve = c["ventry"]
        if ve == "qvalues_from_scores":
            c["desc"] = True
        if ve in ("tdc", "qvalues_from_scores"):
            lines.append(req("tdcchk", c["desc"], c["scores"], Atom(WIRE_KIND[c["lkind"]]), c["raw"]))
        else:
            lines.append(req("labelschk", c["desc"], c["thr"], ve.endswith("series-targets"), c["scores"],
                             Atom(WIRE_KIND[c["lkind"]]), c["raw"]))
    resp = common.driver_batch(lines)
    for c, r in zip(cases, resp):
        ve = c["ventry"]
        model = dec(r)
        s = np.array([float(x) for x in c["scores"]], dtype=float)
        dt = {"bool": bool, "int01": np.int64, "float01": np.float64}[c["lkind"]]
        t = np.array([float(x) if c["lkind"] == "float01" else x for x in c["raw"]], dtype=dt)
        try:
            if ve == "tdc":
                out = Q.tdc(s, t, desc=c["desc"])
            elif ve == "qvalues_from_scores":
                out = Q.qvalues_from_scores(s, t, "tdc")
            elif ve == "_update_labels":
                out = D._update_labels(s, t, float(c["thr"]), c["desc"])
            else:
                out = D._update_labels(s, pd.Series(t), float(c["thr"]), c["desc"])
            got = "ok"
        except ValueError as e:
            msg = str(e)
            got = "reject-length" if "same length" in msg else ("reject-labels" if "should be boolean" in msg
                                                                 else "ValueError:" + msg[:60])
        except Exception as e:
            got = "other:" + type(e).__name__
        series = ve.endswith("series-targets")
        # independent statement of what must be refused
        bad_labels = (not series) and not all(x in (0, 1, True, False) for x in c["raw"])
        mismatch = len(c["raw"]) != len(c["scores"])
        want = "reject-labels" if bad_labels else ("reject-length" if mismatch else "ok")
        chk.case(None, ("refused", ve, c["vkind"], c["lkind"], len(c["scores"]), len(c["raw"])))
        chk.count("validation", f"{ve}:{c['vkind']}:{got}")
        mod = model if isinstance(model, str) else "ok"
        if got != want:
            if want == "ok" and c["lkind"] != "bool" and ve.startswith("_update_labels"):
                chk.spec_violation(f"labels-nonbool-encoding:{'_update_labels' if ve == '_update_labels' else ve}",
                                   dict(vcase=vjson(c), impl=got, expected=want, clause="_update_labels raised"))
            elif got == "ok" or want == "ok":
                chk.spec_violation(f"input-validation:{ve}",
                                   dict(vcase=vjson(c), impl=got, expected=want,
                                        clause="arrays of different length / labels outside {0,1} accepted, or a "
                                               "well-formed input refused"))
            else:
                chk.corr_break("tdcchk", dict(vcase=vjson(c), impl=got, model=mod, expected=want))
            continue
        if mod != got:
            chk.corr_break("tdcchk" if ve in ("tdc", "qvalues_from_scores") else "labelschk",
                           dict(vcase=vjson(c), impl=got, model=mod))
            continue
        if got != "ok":
            chk.reject(got)
            continue
        # accepted: values against the model of the validated entry (exact labelling known: 0/1 or astype(bool))
        if ve in ("tdc", "qvalues_from_scores"):
            mq = [rounded(a_rat(x)) for x in model]
            if [float(x) for x in out] != mq:
                chk.corr_break("tdcchk", dict(vcase=vjson(c), impl=[float(x) for x in out], model=model))
        else:
            ml = [a_int(x) for x in model]
            lab = [int(x) for x in out]
            if lab != ml:
                # decide spec vs correspondence with the direct restatement on the 0/1 labelling
                if all(x in (0, 1, True, False) for x in c["raw"]):
                    chk.spec_violation(f"labels-nonbool-encoding:{ve}" if c["lkind"] != "bool" else f"labels:{ve}", dict(vcase=vjson(c), impl=lab, expected=ml,
                                                             clause="training labels differ from spec"))
                else:
                    chk.corr_break("labelschk", dict(vcase=vjson(c), impl=lab, model=ml))


def validation(chk, rng, n):
    eval_vcases(chk, [gen_vcase(rng) for _ in range(n)])


# ----------------------------------------------------------------------------------------------
# the helper _fdr2qvalue called directly (anchor 2), on arrays satisfying its contract:
# one length, `num_total` cumulative (strictly decreasing once flipped), group sizes >= 1 covering the arrays
# ----------------------------------------------------------------------------------------------
def gen_fcase(rng):
    n = rng.choice([1, 2, 3, 4, 5, 6, 8, 12, 20])
    counts = []
    left = n
    while left:
        c = rng.randint(1, min(left, rng.choice([1, 2, 4])))
        counts.append(c)
        left -= c
    style = rng.choice(["any", "any", "rising", "falling", "above-one"])
    fdr = [Fraction(rng.randint(1, 40), 16) for _ in range(n)]     # exact in float32; values above 1 occur
    if style == "rising":
        fdr.sort()
    elif style == "falling":
        fdr.sort(reverse=True)
    elif style == "above-one":
        fdr = [x + 1 for x in fdr]
    top = n + rng.randint(0, 5)
    nt = sorted(rng.sample(range(1, top + n + 1), n), reverse=True)
    return dict(fdr=fdr, nt=nt, counts=counts, style=style)


def eval_fcases(chk, cases):
    import mokapot.qvalues as Q

    resp = common.driver_batch([req("fdr2q", c["fdr"], c["nt"], c["counts"]) for c in cases])
    for c, r in zip(cases, resp):
        model = dec(r)
        n = len(c["fdr"])
        # the array types tdc itself passes: flipped float32 / int64 views, ascending unique values, int64 counts
        fdr = np.flip(np.array([float(x) for x in reversed(c["fdr"])], dtype=np.float32))
        nt = np.flip(np.array(list(reversed(c["nt"])), dtype=np.int64))
        met = np.arange(len(c["counts"]), dtype=np.float64)
        ind = np.array(c["counts"], dtype=np.int64)
        js = dict(fcase=dict(fdr=[str(x) for x in c["fdr"]], nt=c["nt"], counts=c["counts"], style=c["style"]))
        try:
            out = [float(x) for x in Q._fdr2qvalue(fdr, nt, met, ind)]
        except Exception as e:
            chk.corr_break("fdr2q", dict(js, impl="exception " + repr(e)[:200], model=model))
            continue
        chk.case(None, ("fdr2q", tuple(c["fdr"]), tuple(c["nt"]), tuple(c["counts"])))
        chk.count("fdr2q-direct", c["style"])
        chk.count("fdr2q-groups", min(len(c["counts"]), 8))
        # independent restatement: running minimum (started at 1) of the FDR standing where num_total peaks in each group
        exp, lo, pos = [], Fraction(1), 0
        for g in c["counts"]:
            seg = list(range(pos, pos + g))
            j = max(seg, key=lambda i: (c["nt"][i], -i))
            lo = min(lo, c["fdr"][j])
            exp += [lo] * g
            pos += g
        expf = [float(x) for x in exp]
        if out != expf:
            # the helper is not an entry point of the property: a difference is a broken correspondence,
            # the failing-input search then looks for an effect on tdc
            chk.corr_break("fdr2q", dict(js, impl=out, model=model, expected=[str(x) for x in exp]))
        elif not isinstance(model, list) or [float(a_rat(x)) for x in model] != out:
            chk.corr_break("fdr2q", dict(js, impl=out, model=model))


def fdr2q_direct(chk, rng, n):
    eval_fcases(chk, [gen_fcase(rng) for _ in range(n)])


# ----------------------------------------------------------------------------------------------
# one LinearPsmDataset object used for many calls (as Model.fit / _find_best_feature do: every feature column,
# both directions, then the model scores, all on the same dataset), feature columns in their own dtypes
# ----------------------------------------------------------------------------------------------
SESSION_FEAT_DTYPES = ["float64", "float64", "float32", "int64", "int8", "uint8", "int32", "Int64", "Float64"]


def gen_session(rng):
    n = rng.choice([2, 3, 5, 8, 13, 30, 30, 64])
    labels = [rng.random() < rng.choice([0.3, 0.5, 0.8, 0.97]) for _ in range(n)]
    lk = rng.choice(LABEL_KINDS)
    feats = []
    for j in range(rng.randint(2, 4)):
        dt = rng.choice(SESSION_FEAT_DTYPES)
        pool = rng.randint(1, n)
        wide = False
        if dt in ("float64", "Float64"):
            vals = [Fraction(rng.randint(-40, 40), rng.choice([1, 2, 4])) + Fraction(rng.randint(0, 2), 2 ** 30)
                    for _ in range(pool)]
        elif dt == "float32":
            vals = [Fraction(rng.randint(-400, 400), rng.choice([1, 2, 4, 8])) for _ in range(pool)]
        elif dt == "uint8":
            vals = [Fraction(v) for v in rng.sample(range(0, 256), min(pool, 256))]
        elif dt == "int8":
            vals = [Fraction(v) for v in rng.sample(range(-128, 128), min(pool, 256))]
        elif dt in ("int64", "Int64") and rng.random() < 0.4:
            # an integer column whose values single precision would merge; a column reaches tdc as float64
            # (`scores.values.astype(float)`) and an integer array is cast to float64 by tdc: both keep them apart
            b = rng.choice([2 ** 24, 2 ** 30, 2 ** 40])
            vals = [Fraction(b + rng.randint(0, 6)) for _ in range(max(2, pool))]
            wide = True
        else:
            vals = [Fraction(rng.randint(-100, 100) * rng.choice([1, 1, 60000])) for _ in range(pool)]
        feats.append(dict(dtype=dt, values=[rng.choice(vals) for _ in range(n)], wide=wide))
    calls = []
    for _ in range(rng.randint(4, 8)):
        j = rng.randrange(len(feats))
        calls.append(dict(src=rng.choice(["column-loc", "column-getitem", "array", "array"]), feat=j,
                          desc=rng.random() < 0.5,
                          thr=rng.choice([None, Fraction(0.01), Fraction(0.25), Fraction(0.5), Fraction(0.5), Fraction(0.75),
                                          Fraction(1.0)])))
    # what Model._find_best_feature does: the same column, both directions, one after the other
    j = rng.randrange(len(feats))
    t = Fraction(rng.choice([0.25, 0.5, 0.3]))
    calls += [dict(src="column-loc", feat=j, desc=True, thr=t), dict(src="column-loc", feat=j, desc=False, thr=t),
              dict(src="column-loc", feat=j, desc=True, thr=t)]
    rng.shuffle(calls)
    return dict(n=n, labels=labels, lkind=lk, ldtype=rng.choice(LABEL_DTYPES[lk]), feats=feats, calls=calls,
                index=rng.choice(["default", "reversed", "str", "offset"]), copy_data=rng.random() < 0.5)


def sjson(ss):
    d = dict(ss)
    d["feats"] = [dict(f, values=[str(x) for x in f["values"]]) for f in ss["feats"]]
    d["calls"] = [dict(c, thr=None if c["thr"] is None else str(c["thr"])) for c in ss["calls"]]
    return d


def sfrom_json(d):
    ss = dict(d)
    ss["feats"] = [dict(f, values=[Fraction(x) for x in f["values"]]) for f in d["feats"]]
    ss["calls"] = [dict(c, thr=None if c["thr"] is None else Fraction(c["thr"])) for c in d["calls"]]
    return ss


def eval_sessions(chk, sessions):
    import mokapot.dataset as D

    lines, where = [], {}
    for si, ss in enumerate(sessions):
        for c in ss["calls"]:
            if (si, c["feat"], c["desc"]) not in where:
                ps = [[x, bool(l)] for x, l in zip(ss["feats"][c["feat"]]["values"], ss["labels"])]
                where[(si, c["feat"], c["desc"])] = len(lines)
                lines.append(req("qspec", c["desc"], ps))
    resp = common.driver_batch(lines)
    for si, ss in enumerate(sessions):
        n = ss["n"]
        cols = {"t": label_array(ss["labels"], ss["lkind"], ss["ldtype"]), "spec": np.arange(n),
                "pep": [f"P{i}" for i in range(n)]}
        for j, f in enumerate(ss["feats"]):
            base = {"Int64": "int64", "Float64": "float64"}.get(f["dtype"], f["dtype"])
            col = pd.Series(np.array([int(x) for x in f["values"]], dtype=base) if base.startswith(("int", "uint"))
                            else np.array([float(x) for x in f["values"]], dtype=base))
            cols[f"f{j}"] = col.astype(f["dtype"]) if f["dtype"] != base else col
        df = pd.DataFrame(cols)
        df.index = series_index(ss["index"], n)
        ds = D.LinearPsmDataset(df, target_column="t", spectrum_columns="spec", peptide_column="pep",
                                feature_columns=[f"f{j}" for j in range(len(ss["feats"]))],
                                copy_data=ss["copy_data"], enforce_checks=False)
        handed_out = []
        for ci, c in enumerate(ss["calls"]):
            sp = deep(a_rat, dec(resp[where[(si, c["feat"], c["desc"])]]))
            name = f"f{c['feat']}"
            f = ss["feats"][c["feat"]]
            if c["src"] == "column-loc":
                arg = ds.data.loc[:, name]
            elif c["src"] == "column-getitem":
                arg = ds.data[name]
            else:
                arg = np.array([float(x) for x in f["values"]], dtype=float)
            thr = Fraction(0.01) if c["thr"] is None else c["thr"]
            sig = f"labels-dataset-reused:{c['src']}"
            js = dict(session=sjson(ss), call=ci)
            try:
                if c["thr"] is None:
                    out = ds._update_labels(arg, desc=c["desc"])
                else:
                    out = ds._update_labels(arg, float(thr), c["desc"])
            except Exception as e:
                chk.spec_violation(sig, dict(js, error=repr(e)[:300], clause="LinearPsmDataset._update_labels raised"))
                continue
            chk.case(None, ("session", ss["n"], tuple(ss["labels"]), tuple(f["values"]), c["desc"], str(thr)))
            chk.count("session-call", f"{c['src']}:{f['dtype']}" + (":wide-values" if f.get("wide") else ""))
            chk.count("session-threshold", "default" if c["thr"] is None else "given")
            chk.count("session-call-number", min(ci, 9))
            handed_out.append((out, np.array(out, copy=True), ci))
            exact, stored, boundary = expected_labels(ss["labels"], sp, thr)
            got = [float(x) for x in out]
            if boundary:
                chk.float_boundary += 1
            if got != [float(x) for x in (stored if boundary else exact)]:
                chk.spec_violation(sig, dict(js, impl=got, expected=stored if boundary else exact,
                                             clause="training labels of a call on a dataset used before differ from "
                                                    "the spec of that call's own scores, direction and threshold"))
        for obj, snap, ci in handed_out:
            if not np.array_equal(obj, snap):
                chk.spec_violation("result-overwritten-by-later-call:LinearPsmDataset",
                                   dict(session=sjson(ss), call=ci,
                                        clause="labels returned by an earlier call changed during later calls"))
        if [bool(x) for x in ds.targets] != ss["labels"]:
            chk.spec_violation("dataset-targets-changed", dict(session=sjson(ss),
                                                               clause="the dataset's target column changed"))


def pinned_sessions():
    """run first on every seed: one dataset, the same column in both directions and again (what the search for the
    best feature does); the default threshold on 30 targets above two decoys; a wide integer column"""
    out = []
    half, dflt = Fraction(1, 2), None
    f0 = [Fraction(v) for v in (9, 8, 7, 6, 5, 4)]
    f1 = [Fraction(v) for v in (1, 2, 3, 3, 5, 6)]
    lab = [True, True, False, True, False, True]
    calls = [dict(src="column-loc", feat=0, desc=True, thr=half), dict(src="column-loc", feat=0, desc=False, thr=half),
             dict(src="column-loc", feat=0, desc=True, thr=Fraction(1)), dict(src="column-loc", feat=1, desc=True, thr=half),
             dict(src="array", feat=1, desc=False, thr=half), dict(src="column-getitem", feat=0, desc=True, thr=half)]
    out.append(dict(n=6, labels=lab, lkind="bool", ldtype="bool", index="default", copy_data=True, calls=calls,
                    feats=[dict(dtype="float64", values=f0, wide=False), dict(dtype="int64", values=f1, wide=False)]))
    sc = [Fraction(200 - i) for i in range(32)]
    out.append(dict(n=32, labels=[True] * 30 + [False] * 2, lkind="int01", ldtype="int64", index="str", copy_data=False,
                    feats=[dict(dtype="float64", values=sc, wide=False), dict(dtype="int32", values=sc, wide=False)],
                    calls=[dict(src=src, feat=j, desc=True, thr=dflt) for src in ("column-loc", "array") for j in (0, 1)]))
    for b in (2 ** 24, 2 ** 30):
        v = [Fraction(x) for x in (b + 1, b + 3, b, b - 1000)]
        out.append(dict(n=4, labels=[True, True, False, True], lkind="bool", ldtype="bool", index="offset",
                        copy_data=True, feats=[dict(dtype="int64", values=v, wide=True), dict(dtype="Int64", values=v, wide=True)],
                        calls=[dict(src=src, feat=j, desc=True, thr=half) for src in ("column-loc", "column-getitem", "array")
                               for j in (0, 1)]))
    return out


def dataset_sessions(chk, rng, n):
    eval_sessions(chk, pinned_sessions() + [gen_session(rng) for _ in range(n)])


# ----------------------------------------------------------------------------------------------
# long inputs (counts beyond 255 / 32767 / 65535, numpy's sort switching algorithms, any size-dependent path),
# and the same-length calls made from several threads at once (brew trains its folds in threads)
# ----------------------------------------------------------------------------------------------
LARGE_QUICK = [100, 150, 257, 300, 1000, 4097, 68000, 70000]
LARGE_THOROUGH = LARGE_QUICK + [64, 128, 129, 255, 256, 512, 2000, 5000, 10000, 20000, 66000, 140000, 300000]


def gen_large(rng, n):
    sdt = rng.choice(["float64", "float64", "float32", "int32", "uint16", "int8", "int64"])
    k = rng.choice([2, 7, 40, max(2, n // 3), 2 * n])
    den = 1
    if sdt in INT_RANGE:
        lo, hi = INT_RANGE[sdt]
        lo, hi = max(lo, -2 ** 22), min(hi, 2 ** 22)
        pool = [rng.randint(lo, hi) for _ in range(k)]
    else:
        # float scores are `scores[i] / den` (exact in float32 and float64); kept as integers, which order the same
        den = rng.choice([1, 2, 4])
        pool = [rng.randint(-2 ** 21, 2 ** 21) for _ in range(k)]
    scores = [rng.choice(pool) for _ in range(n)]
    p = rng.choice([0.5, 0.5, 0.9, 0.97, 0.1])
    if n >= 68000:                  # more than 65535 targets (n = 70000 ...) or decoys (n = 68000 ...)
        p = 0.97 if n % 10000 == 0 else 0.03
    labels = [rng.random() < p for _ in range(n)]
    if rng.random() < 0.3:          # a long run of decoys on top
        order = sorted(range(n), key=lambda i: scores[i], reverse=True)
        for i in order[: n // 50 + 1]:
            labels[i] = False
    return dict(scores=scores, labels=labels, desc=rng.random() < 0.5, sdtype=sdt,
                lkind=rng.choice(LABEL_KINDS), thr=Fraction(rng.choice([0.01, 0.05, 0.25, 0.5])),
                entry=rng.choice(["tdc", "tdc", "qvalues_from_scores"]),
                lentry=rng.choice(["_update_labels", "_update_labels-series", "_update_labels-series-native"]),
                pat="long", den=den)


def lscore_array(c):
    if c["sdtype"] in INT_RANGE:
        return np.array(c["scores"], dtype=c["sdtype"])
    s = np.array(c["scores"], dtype=np.float64) / c["den"]
    a = s.astype(c["sdtype"])
    assert np.array_equal(a.astype(np.float64), s)
    return a


def ljson(c):
    return dict({k: v for k, v in c.items() if k != "_hist"}, thr=str(c["thr"]))


def lfrom_json(d):
    return dict(d, scores=[int(x) for x in d["scores"]], thr=Fraction(d["thr"]))


def eval_large(chk, cases):
    lines = []
    for c in cases:
        n = len(c["scores"])
        ps = [[Fraction(x, c["den"]), bool(l)] for x, l in zip(c["scores"], c["labels"])] if n <= 5000 else []
        if c["entry"] == "qvalues_from_scores":
            c["desc"] = True
        lines.append(req("tdc", c["desc"], ps) if n <= 5000 else req("f32ofint", []))
        lines.append(req("tdcarr", c["desc"], ps) if n <= 1100 else req("f32ofint", []))
        lines.append(req("qspec", c["desc"], ps) if n <= 150 else req("f32ofint", []))
        # the formula on the histogram of the input (model `qBlocks`, proved to be the defining formula of every input
        # with that histogram): one row per distinct score
        hist = {}
        for x, l in zip(c["scores"], c["labels"]):
            h = hist.setdefault(x, [0, 0])
            h[0 if l else 1] += 1
        c["_hist"] = sorted(hist) if len(hist) <= 1200 else None
        lines.append(req("qblocks", c["desc"], [[Fraction(x, c["den"]), [hist[x][0], hist[x][1]]] for x in c["_hist"]])
                     if c["_hist"] is not None else req("f32ofint", []))
    resp = common.driver_batch(lines)
    for k, c in enumerate(cases):
        n = len(c["scores"])
        sp = py_spec(c["scores"], c["labels"], c["desc"])
        s = lscore_array(c)
        t = label_array(c["labels"], c["lkind"])
        small = dict(n=n, sdtype=c["sdtype"], desc=c["desc"], entry=c["entry"], lentry=c["lentry"])
        try:
            q = [float(x) for x in impl_tdc(s, t, c["desc"], c["entry"])]
        except Exception as e:
            chk.spec_violation("exception:" + type(e).__name__, dict(lcase=ljson(c), error=repr(e)[:300], clause="tdc raised"))
            continue
        chk.case(None, ("long", n, c["sdtype"], c["desc"], hash(tuple(c["scores"][:50])), tuple(c["labels"][:50])))
        chk.count("long-n", n)
        chk.count("long-sdtype", c["sdtype"])
        for nm, cnt in (("targets", sum(c["labels"])), ("decoys", n - sum(c["labels"]))):
            chk.count(f"long-{nm}", "over-65535" if cnt > 65535 else ("over-255" if cnt > 255 else "small"))
        exp = [rounded_c(x) for x in sp]
        if q != exp:
            bad = [i for i in range(min(len(q), n)) if q[i] != exp[i]][:5]
            chk.spec_violation(f"qvalue-formula:{c['entry']}",
                               dict(lcase=ljson(c), summary=small, first_differences=[(i, q[i], str(sp[i])) for i in bad],
                                    clause="q-value differs from the defining formula (long input)"))
            continue
        if c["_hist"] is not None:
            mb = dec(resp[4 * k + 3])
            row = {x: i for i, x in enumerate(c["_hist"])}
            chk.count("long-histogram-model", "qblocks")
            if not isinstance(mb, list) or [a_rat(mb[row[x]]) for x in c["scores"]] != sp:
                chk.corr_break("qblocks", dict(lcase=ljson({k2: v for k2, v in c.items() if k2 != "_hist"}), summary=small))
        for j, op in ((0, "tdc"), (1, "tdcarr"), (2, "qspec")):
            m = dec(resp[4 * k + j])
            if (op == "tdc" and n <= 5000) or (op == "tdcarr" and n <= 1100) or (op == "qspec" and n <= 150):
                if not isinstance(m, list) or [a_rat(x) for x in m] != sp:
                    chk.corr_break(op if op != "qspec" else "qspec-restatement", dict(lcase=ljson(c), summary=small))
        exact, stored, boundary = expected_labels(c["labels"], sp, c["thr"])
        c2 = dict(c, sindex="offset", tindex_same=False, sext=False)
        try:
            lab = [float(x) for x in impl_labels(s, t, float(c["thr"]), c["desc"], c["lentry"], c2)]
        except Exception as e:
            chk.spec_violation(f"exception-labels:{type(e).__name__}", dict(lcase=ljson(c), error=repr(e)[:300],
                                                                            clause="_update_labels raised"))
            continue
        chk.count("long-lentry", c["lentry"])
        if boundary:
            chk.float_boundary += 1
        if lab != [float(x) for x in (stored if boundary else exact)]:
            chk.spec_violation(f"labels:{c['lentry']}", dict(lcase=ljson(c), summary=small,
                                                             clause="training labels differ from spec (long input)"))


def threaded_calls(chk, rng, n, rounds):
    """tdc called from four threads at once on inputs of one length (brew fits its folds in threads and every fit
    calls _update_labels): each result must be the one the call gives on its own"""
    from concurrent.futures import ThreadPoolExecutor
    import mokapot.qvalues as Q

    cases = []
    for _ in range(4):
        cases.append(gen_large(rng, n))
    arrs = [(lscore_array(c), label_array(c["labels"], "bool"), c["desc"]) for c in cases]
    exp = [[rounded_c(x) for x in py_spec(c["scores"], c["labels"], c["desc"])] for c in cases]
    with ThreadPoolExecutor(4) as ex:
        for r in range(rounds):
            outs = list(ex.map(lambda a: [float(x) for x in Q.tdc(a[0], a[1], desc=a[2])], arrs))
            for i, (o, e) in enumerate(zip(outs, exp)):
                chk.case(None, ("threads", n, r, i))
                chk.count("threaded-calls", n)
                if o != e:
                    chk.spec_violation("qvalue-formula:tdc-concurrent",
                                       dict(lcase=ljson(cases[i]), summary=dict(n=n, threads=4, round=r),
                                            clause="q-values of a call made while other threads call tdc differ from the formula"))
                    return


def large_inputs(chk, rng, sizes):
    eval_large(chk, [gen_large(rng, n) for n in sizes])


# ----------------------------------------------------------------------------------------------
# inputs whose running counts exceed 2^24 (a single precision count stalls there: seeded change C01e).  The case is
# a *histogram* (score, #targets, #decoys per tie group) expanded to rows in some order; the expected q-values
# come from the closed formula on the histogram in int64 arithmetic, and independently from the driver's
# `qblocks` (model `qBlocks`, proved in Props/C01Cnt.lean to be the defining formula of every input with that
# histogram, in any order).  Nothing row-by-row goes through the driver.
# ----------------------------------------------------------------------------------------------
P24 = 2 ** 24


def _partition(rng, total, parts):
    """`parts` non-negative integers summing to `total`, sizes very uneven (tiny and huge blocks)"""
    if parts == 1:
        return [total]
    cuts = sorted(int(total * rng.random() ** rng.choice([1, 3])) for _ in range(parts - 1))
    return [b - a for a, b in zip([0] + cuts, cuts + [total])]


def gen_huge(rng, both):
    """more than 2^24 targets (and, if `both`, more than 2^24 decoys below a larger number of targets: q < 1 needs
    targets > decoys) in one call.  Layout "head": the best tie group alone holds more than 2^24 targets (decoys), so
    every later threshold (up to 39 of them, odd counts) lies beyond 2^24; "spread": sizes very uneven, anywhere"""
    B = rng.choice([1, 2, 3, 5, 9, 17, 40])
    layout = rng.choice(["head", "head", "spread"])
    sdt = rng.choice(["int8", "float32", "float64", "int32", "uint8"])
    nT = P24 + rng.choice([5, 1000, 2 ** 16, 2 ** 20, 2 ** 21])
    nD = rng.choice([0, 3, 500, 2 ** 14, 2 ** 19])
    if both:
        nD = P24 + rng.choice([7, 2 ** 12, 2 ** 18])
        nT = nD + rng.choice([9, 2 ** 13, 2 ** 19])
    desc = rng.random() < 0.5
    entry = rng.choice(["tdc", "qvalues_from_scores"])
    if entry == "qvalues_from_scores":
        desc = True
    lo, hi = INT_RANGE.get(sdt, (-2 ** 20, 2 ** 20))
    vals = rng.sample(range(max(lo, -2 ** 20), min(hi, 2 ** 20) + 1), B)
    if layout == "head" and B > 1:
        vals.sort(reverse=desc)                                  # block 0 is the best tie group
        restT = min(nT - P24 - 1, rng.choice([B, 40 * B, 2 ** 12 * B]))
        restD = min(nD - (P24 + 1 if both else 0), rng.choice([B, 7 * B, 2 ** 10 * B])) if nD else 0
        restD = max(restD, 0)
        nts = [nT - restT] + [x + 0 for x in _partition(rng, restT, B - 1)]
        nds = [nD - restD] + _partition(rng, restD, B - 1)
    else:
        nts, nds = _partition(rng, nT, B), _partition(rng, nD, B)
    blocks = [[v, a, b] for v, a, b in zip(vals, nts, nds) if a + b > 0]
    return dict(blocks=blocks, den=1 if sdt in INT_RANGE else rng.choice([1, 2, 8]), sdtype=sdt, desc=desc,
                lkind=rng.choice(LABEL_KINDS), order=rng.choice(["blocks", "reversed", "stride", "shuffle"]),
                oseed=rng.randrange(2 ** 31), entry=entry, layout=layout,
                lentry=rng.choice(["_update_labels", "_update_labels-series"]), thr_pick=rng.random(), pat="huge")


def huge_arrays(c):
    """(scores, labels, block id of every row) of the expanded histogram, in the case's row order"""
    blocks = c["blocks"]
    B = len(blocks)
    seg = np.array([x for b in blocks for x in (b[1], b[2])], dtype=np.int64)
    ids = np.repeat(np.repeat(np.arange(B, dtype=np.int32), 2), seg)
    lab = np.repeat(np.tile(np.array([True, False]), B), seg)
    n = len(ids)
    if c["order"] == "reversed":
        ids, lab = ids[::-1].copy(), lab[::-1].copy()
    elif c["order"] == "stride":
        k = 1000003
        while np.gcd(k, n) != 1:
            k += 2
        perm = (np.arange(n, dtype=np.int64) * k) % n
        ids, lab = ids[perm], lab[perm]
    elif c["order"] == "shuffle":
        perm = np.random.default_rng(c["oseed"]).permutation(n)
        ids, lab = ids[perm], lab[perm]
    vals = np.array([b[0] for b in blocks], dtype=np.int64)
    if c["sdtype"] in INT_RANGE:
        sc = vals.astype(c["sdtype"])[ids]
    else:
        sc = (vals.astype(np.float64) / c["den"]).astype(c["sdtype"])[ids]
    if c["lkind"] == "int01":
        lab = lab.astype(np.int64)
    elif c["lkind"] == "float01":
        lab = lab.astype(np.float64)
    return sc, lab, ids


def huge_expected(c):
    """closed formula on the histogram: per block (q as stored, exact q as a Fraction), int64 counts"""
    blocks = c["blocks"]
    key = np.array([(-b[0] if c["desc"] else b[0]) for b in blocks], dtype=np.int64)
    o = np.argsort(key, kind="stable")                         # best block first (scores are distinct)
    cT = np.cumsum(np.array([blocks[i][1] for i in o], dtype=np.int64))
    cD = np.cumsum(np.array([blocks[i][2] for i in o], dtype=np.int64))
    fdr = np.ones(len(o), dtype=np.float32)
    np.divide(cD + 1, cT, out=fdr, where=(cT != 0))
    q = np.minimum.accumulate(np.minimum(fdr.astype(np.float64), 1.0)[::-1])[::-1]
    qx, lo = [None] * len(o), Fraction(1)
    for j in range(len(o) - 1, -1, -1):
        if int(cT[j]):
            lo = min(lo, Fraction(int(cD[j]) + 1, int(cT[j])))
        qx[j] = lo
    stored, exact = np.empty(len(o)), [None] * len(o)
    for j, i in enumerate(o):
        stored[i], exact[i] = q[j], qx[j]
    return stored, exact


def hjson(c):
    return dict(c)


def eval_huge(chk, cases, with_labels=True):
    for c in cases:
        if c["entry"] == "qvalues_from_scores":
            c["desc"] = True
        stored, exact = huge_expected(c)
        # threshold between two of the q-values that occur (so that the labels depend on it), as a double
        qs = sorted(set(float(x) for x in stored))
        j = min(int(c["thr_pick"] * len(qs)), len(qs) - 1)
        thr = (qs[j] + (qs[j + 1] if j + 1 < len(qs) else 1.0)) / 2 if c["thr_pick"] < 0.8 else qs[j]
        wb = [[Fraction(b[0], c["den"]), [b[1], b[2]]] for b in c["blocks"]]
        resp = common.driver_batch([req("qblocks", c["desc"], wb), req("labelsblocks", c["desc"], Fraction(thr), wb)])
        mq = dec(resp[0])
        ml = dec(resp[1])
        nT, nD = sum(b[1] for b in c["blocks"]), sum(b[2] for b in c["blocks"])
        small = dict(n=nT + nD, targets=nT, decoys=nD, blocks=len(c["blocks"]), sdtype=c["sdtype"], desc=c["desc"],
                     order=c["order"], entry=c["entry"], lentry=c["lentry"], thr=thr)
        if not isinstance(mq, list) or [a_rat(x) for x in mq] != exact or \
                [rounded_c(a_rat(x)) for x in mq] != [float(x) for x in stored]:
            chk.corr_break("qblocks", dict(hcase=hjson(c), summary=small, model=mq if not isinstance(mq, list) else mq[:5]))
        sc, lab, ids = huge_arrays(c)
        try:
            q = np.asarray(impl_tdc(sc, lab, c["desc"], c["entry"]), dtype=float)
        except Exception as e:
            chk.spec_violation("exception:" + type(e).__name__, dict(hcase=hjson(c), summary=small, error=repr(e)[:300],
                                                                   clause="tdc raised"))
            continue
        chk.case(None, ("huge", nT, nD, len(c["blocks"]), c["sdtype"], c["desc"], c["order"], c["oseed"]))
        chk.count("huge-n", f"{(nT + nD) >> 20}Mi")
        chk.count("huge-targets", "over-2^24" if nT > P24 else "below")
        chk.count("huge-decoys", "over-2^24" if nD > P24 else "below")
        chk.count("huge-order", c["order"])
        chk.count("huge-layout", c.get("layout", "spread"))
        chk.count("huge-thresholds-beyond-2^24", int(sum(1 for x in np.cumsum([b[1] for b in sorted(
            c["blocks"], key=lambda b: -b[0] if c["desc"] else b[0])]) if x > P24)))
        chk.count("huge-sdtype", c["sdtype"])
        want = stored[ids]
        if q.shape != want.shape or not np.array_equal(q, want):
            bad = np.flatnonzero(q != want) if q.shape == want.shape else np.array([0])
            chk.spec_violation(f"qvalue-formula:{c['entry']}",
                               dict(hcase=hjson(c), summary=small, differing=int(len(bad)),
                                    first_differences=[(int(i), float(q[i]), str(exact[int(ids[i])])) for i in bad[:5]],
                                    clause="q-value differs from the defining formula (input with more than 2^24 targets)"))
            continue
        if not with_labels:
            continue
        blk_exact = np.array([1.0 if x <= Fraction(thr) else 0.0 for x in exact])
        blk_stored = np.array([1.0 if float(x) <= thr else 0.0 for x in stored])
        boundary = not np.array_equal(blk_exact, blk_stored)
        if boundary:
            chk.float_boundary += 1
        elif not isinstance(ml, list) or [float(a_int(x)) for x in ml] != [float(x) for x in blk_exact]:
            chk.corr_break("labelsblocks", dict(hcase=hjson(c), summary=small, model=ml))
        tb = np.asarray(lab).astype(bool)
        wantl = np.where(tb, (blk_stored if boundary else blk_exact)[ids], -1.0)
        del q, want
        try:
            got = np.asarray(impl_labels(sc, lab, thr, c["desc"], c["lentry"], {}), dtype=float)
        except Exception as e:
            chk.spec_violation(f"exception-labels:{type(e).__name__}", dict(hcase=hjson(c), summary=small, error=repr(e)[:300],
                                                                            clause="_update_labels raised"))
            continue
        chk.count("huge-lentry", c["lentry"])
        if got.shape != wantl.shape or not np.array_equal(got, wantl):
            chk.spec_violation(f"labels:{c['lentry']}",
                               dict(hcase=hjson(c), summary=small,
                                    differing=int((got != wantl).sum()) if got.shape == wantl.shape else -1,
                                    clause="training labels differ from spec (input with more than 2^24 targets)"))


def huge_inputs(chk, rng):
    """one call with more than 2^24 targets on every run; one with more than 2^24 decoys under more than 2^24 targets
    (n about 2^25) in the thorough tier and, q-values only, on every odd seed of the quick tier"""
    eval_huge(chk, [gen_huge(rng, False)])
    if chk.tier == "thorough":
        eval_huge(chk, [gen_huge(rng, True)])
        eval_huge(chk, [gen_huge(rng, False)], with_labels=False)
    elif chk.seed % 2 == 1 and not chk.spec_violations:
        eval_huge(chk, [gen_huge(rng, True)], with_labels=False)


def count_types(chk):
    """the count types of Model/QvaluesCnt.lean against numpy: a float32 running sum of ones stalls at 2^24
    (`roundNat24`), the platform integer does not"""
    lines, exp = [], []
    for start in (P24 - 3, P24 - 1, P24):
        for k in (1, 2, 8):
            a = np.concatenate([[np.float32(start)], np.ones(k, dtype=bool)])
            exp.append(int(np.cumsum(a, dtype=np.float32)[-1]))
            lines.append(req("cumcount", Atom("f32"), 0, start, k))
            b = np.concatenate([[start], np.ones(k, dtype=bool)])
            exp.append(int(np.cumsum(b)[-1]))
            lines.append(req("cumcount", Atom("i64"), 0, start, k))
    ones = np.ones(5, dtype=bool)
    exp.append(int(ones.cumsum()[-1]))
    lines.append(req("cumcount", Atom("i64"), 0, 0, 5))
    chk.count("count-dtype-of-cumsum", str(ones.cumsum().dtype))
    resp = common.driver_batch(lines)
    got = [a_int(dec(r)) for r in resp]
    chk.case(None, ("count-types", tuple(exp)))
    if got != exp:
        chk.corr_break("cumcount", dict(impl=exp, model=got))



def exhaustive(chk, nmax, nvals):
    cases = []
    for n in range(1, nmax + 1):
        for sc in itertools.product(range(nvals), repeat=n):
            # canonical weak orderings only up to value renaming is not needed: small enough
            for lab in itertools.product([False, True], repeat=n):
                for desc in (True, False):
                    cases.append(dict(scores=[Fraction(x) for x in sc], labels=list(lab), desc=desc,
                                      sdtype="float64", lkind="bool", pat="exhaustive",
                                      thr=Fraction(1, 2), entry="tdc", lentry="_update_labels"))
    for i in range(0, len(cases), 20000):
        eval_cases(chk, cases[i:i + 20000], None, with_labels=(i % 3 == 0))
    chk.extra["exhaustive_sweep"] = f"all score vectors over {nvals} values x labellings x directions, n<={nmax}: {len(cases)} cases"


def unsupported_dtypes(chk):
    """score dtypes numba has no kernel for (half and extended precision): the code refuses them; outside
    "all supported dtypes", tallied so that the boundary is on record"""
    import mokapot.qvalues as Q

    for dt in ("float16", "longdouble"):
        try:
            q = Q.tdc(np.array([3, 2, 2, 1], dtype=dt), np.array([True, False, True, True]))
            chk.count("score-dtype-outside", f"{dt}:accepted")
            if [float(x) for x in q] != [rounded(Fraction(2, 3))] * 4:
                chk.spec_violation(f"qvalue-formula:tdc:{dt}", dict(dtype=dt, impl=[float(x) for x in q],
                                                                   clause="q-value differs from the defining formula"))
        except Exception as e:
            chk.reject(f"score-dtype-{dt}:{type(e).__name__}")
    # integer dtypes are cast to float64 (qvalues.py:106-107, float32 until /repo 36ef8db): an order embedding below
    # 2^53.  Integers beyond 2^24 must stay apart (pinned cases compare them with the formula); on record: what the
    # code does beyond 2^53 ("small-integer dtype" is read as excluding such values; see GAPS-C01.md G1-d)
    for e in (24, 53):
        big = np.array([2 ** e + 2, 2 ** e + 1, 2 ** e], dtype=np.int64)
        q = [float(x) for x in Q.tdc(big, np.array([True, True, False]))]
        chk.count(f"int-scores-above-2^{e}", "kept-apart" if q == [0.5, 0.5, 1.0] else "merged-by-the-cast")


def pinned_cases():
    """hand-picked inputs run first on every seed: 0/1 integer and float labellings handed to the label entry
    points as arrays (the decoy of row 1 was labelled +1 by `new_labels[~targets] = -1` on an integer array),
    one-row inputs, a group of ties straddling the threshold in both directions"""
    out = []
    base = dict(sdtype="float64", layout="C", pat="pinned", vstyle="pinned", entry="tdc")
    for lk, ldt in (("int01", "int64"), ("int01", "uint8"), ("int01", "int8"), ("float01", "float64"),
                    ("float01", "float32"), ("bool", "bool")):
        for lentry in ("_update_labels", "_update_labels-series", "LinearPsmDataset",
                       "_update_labels-array-scores-series-targets"):
            for desc in (True, False):
                sc = [5, 4, 3, 2, 1] if desc else [1, 2, 3, 4, 5]
                out.append(dict(base, scores=[Fraction(x) for x in sc], labels=[True, False, True, True, False],
                                desc=desc, lkind=lk, ldtype=ldt, llkind=lk, lldtype=ldt, lentry=lentry,
                                thr=Fraction(1, 2)))
        out.append(dict(base, scores=[Fraction(7)], labels=[True], desc=True, lkind=lk, ldtype=ldt, llkind=lk,
                        lldtype=ldt, lentry="_update_labels", thr=Fraction(1)))
        out.append(dict(base, scores=[Fraction(7)], labels=[False], desc=False, lkind=lk, ldtype=ldt, llkind=lk,
                        lldtype=ldt, lentry="_update_labels", thr=Fraction(1)))
        out.append(dict(base, scores=[Fraction(x) for x in (3, 3, 2, 2, 2, 1)],
                        labels=[True, True, True, False, True, False], desc=True, lkind=lk, ldtype=ldt, llkind=lk,
                        lldtype=ldt, lentry="_update_labels", thr=Fraction(1, 2)))
    # the documented default threshold 0.01: 30 (64, 120) targets above two decoys have q = 1/30 (1/64, 1/120)
    for T in (30, 64, 120):
        for lentry in ("_update_labels-default-fdr", "LinearPsmDataset-default-fdr"):
            for desc in (True, False):
                sc = [Fraction(200 - i) for i in range(T + 2)]
                out.append(dict(base, scores=sc if desc else [-x for x in sc], labels=[True] * T + [False] * 2, desc=desc,
                                lkind="bool", ldtype="bool", llkind="bool", lldtype="bool", lentry=lentry,
                                thr=Fraction(0.01), pat="pinned-default-threshold"))
    # integer dtypes at the ends of their ranges (negating them in the integer dtype wraps), zeros of both signs
    for sdt, vals in (("int8", [-128, 7, 5]), ("uint8", [0, 5, 3]), ("int16", [-32768, 7, 5]), ("uint64", [0, 2 ** 64 - 1, 3]),
                      ("int64", [-2 ** 63, 2 ** 63 - 1, 5]), ("int32", [-2 ** 31, 5, 7])):
        for desc in (True, False):
            out.append(dict(base, sdtype=sdt, scores=[Fraction(v) for v in vals], labels=[False, True, True], desc=desc,
                            lkind="bool", ldtype="bool", llkind="bool", lldtype="bool", lentry="_update_labels",
                            thr=Fraction(1, 2), vstyle="dtype-extremes", pat="pinned-dtype-extremes"))
    for sdt in ("float64", "float32"):
        for desc in (True, False):
            out.append(dict(base, sdtype=sdt, scores=[Fraction(v) for v in (1, 0, 0, 0, -1)],
                            labels=[True, True, False, True, True], negzero=[1, 3], desc=desc, lkind="bool", ldtype="bool",
                            llkind="bool", lldtype="bool", lentry="_update_labels", thr=Fraction(1, 2),
                            vstyle="signed-zeros", pat="pinned-signed-zeros"))
    # an integer column that single precision would merge, handed over as a pandas Series (float64 keeps it apart)
    for b in (2 ** 24, 2 ** 30):
        for k in (2, 3):
            for desc in (True, False):
                sc = [b + 1 + 2 * i for i in range(k)] + [b, b - 1000]
                out.append(dict(base, sdtype="int64", scores=[Fraction(v if desc else -v) for v in sc],
                                labels=[True] * k + [False, True], desc=desc, lkind="bool", ldtype="bool", llkind="bool",
                                lldtype="bool", lentry="_update_labels-series-native", sindex="offset",
                                tindex_same=True, sext=(k == 3), thr=Fraction(1, 2), vstyle="int-beyond-2^24",
                                pat="pinned-wide-integer-column"))
    return out


def corpus_cases():
    p = common.VERIF / "harness" / "corpus" / "C01.json"
    if p.exists():
        return pinned_cases() + [from_json(d) for d in json.loads(p.read_text())]
    return pinned_cases()


def search(chk):
    """failing-input search used when a proof or the correspondence is broken"""
    rng = chk.rng
    cases = [decorate(rng, gen_case(rng, 12)) for _ in range(3000)]
    eval_cases(chk, cases, None)
    if not chk.spec_violations:
        dataset_sessions(chk, rng, 150)
    if not chk.spec_violations:
        large_inputs(chk, rng, [64, 129, 257, 513, 1025, 2049, 4097, 8193, 20000])
    if not chk.spec_violations:
        exhaustive(chk, 5, 3)


def minimise(chk):
    """shrink the first spec violation to a minimal row set"""
    if not chk.spec_violations:
        return
    sig, info = chk.spec_violations[0]
    if "lcase" in info and sig.startswith("qvalue-formula") and not info.get("summary", {}).get("threads"):
        # long input: drop rows while the real code still differs from the restated formula (no driver, 20 s at most)
        import time
        c0 = lfrom_json(info["lcase"])
        rows = list(zip(c0["scores"], c0["labels"]))
        t_end = time.time() + 20

        best = [rows]

        class _Timeout(Exception):
            pass

        def lfails(rs):
            if time.time() > t_end:
                raise _Timeout()
            if not rs:
                return False
            c = dict(c0, scores=[r[0] for r in rs], labels=[r[1] for r in rs])
            try:
                q = [float(x) for x in impl_tdc(lscore_array(c), label_array(c["labels"], c["lkind"]), c["desc"], c["entry"])]
            except Exception:
                return False
            bad = q != [rounded_c(x) for x in py_spec(c["scores"], c["labels"], c["desc"])]
            if bad:
                best[0] = rs
            return bad

        try:
            small = common.shrink_list(rows, lfails)
        except _Timeout:
            small = best[0]
        if len(small) < len(rows):
            sub = common.Check(chk.prop, chk.tier, chk.seed)
            eval_large(sub, [dict(c0, scores=[r[0] for r in small], labels=[r[1] for r in small])])
            for s2, i in sub.spec_violations:
                if s2 == sig:
                    chk.spec_violations[0] = (s2, dict(i, shrunk_from_rows=len(rows)))
                    break
        return
    if "case" not in info or not sig.startswith(("qvalue-formula", "labels")):
        return
    c0 = from_json(info["case"])
    rows = list(zip(c0["scores"], c0["labels"]))

    def fails(rs):
        sub = common.Check(chk.prop, chk.tier, chk.seed)
        c = dict(c0, scores=[r[0] for r in rs], labels=[r[1] for r in rs])
        try:
            eval_cases(sub, [c], None)
        except Exception:
            return False
        return any(s == sig for s, _ in sub.spec_violations)

    small = common.shrink_list(rows, fails)
    sub = common.Check(chk.prop, chk.tier, chk.seed)
    eval_cases(sub, [dict(c0, scores=[r[0] for r in small], labels=[r[1] for r in small])], None)
    for s, i in sub.spec_violations:
        if s == sig:
            chk.spec_violations[0] = (s, dict(i, shrunk_from_rows=len(rows)))
            break


def main(chk, args):
    build = common.build_and_audit("C01")
    if not build.driver_ok:
        chk.finish(build, RULE)
    rng = chk.rng
    cases = corpus_cases()
    n = 600 if chk.tier == "quick" else 6000
    cases += [decorate(rng, gen_case(rng, 60)) for _ in range(n)]
    for _ in range(n // 6):
        c = decorate(rng, gen_eps_case(rng))
        k = sum(c["labels"][i] for i in range(len(c["labels"])))
        if c["lentry"].endswith("default-fdr"):
            c["lentry"] = "_update_labels"
        c["thr"] = Fraction(rng.choice([0.3, 0.5, 0.6, 0.75]))
        cases.append(c)
    for _ in range(n // 10):
        c = gen_boundary_case(rng)
        thr = c["thr"]
        c = decorate(rng, c)
        if c["lentry"].endswith("default-fdr"):
            c["lentry"] = "_update_labels"
        c["thr"] = thr
        if rng.random() < 0.3:
            # the documented default threshold (0.01) on prefixes whose FDR is 1/100, 1/20, 2/40, 1/10 ...: a default
            # of 0.05 or 0.1 would accept them, a default below 0.01 would refuse the 1/100 one
            c["lentry"] = rng.choice(["_update_labels-default-fdr", "LinearPsmDataset-default-fdr"])
            c["thr"] = Fraction(0.01)
        cases.append(c)
    eval_cases(chk, cases, None)
    malformed(chk, rng, 100 if chk.tier == "quick" else 1000)
    validation(chk, rng, 120 if chk.tier == "quick" else 1500)
    fdr2q_direct(chk, rng, 200 if chk.tier == "quick" else 3000)
    dataset_sessions(chk, rng, 40 if chk.tier == "quick" else 600)
    large_inputs(chk, rng, LARGE_QUICK if chk.tier == "quick" else LARGE_THOROUGH * 3)
    threaded_calls(chk, rng, 20000, 2 if chk.tier == "quick" else 10)
    unsupported_dtypes(chk)
    count_types(chk)
    if not chk.spec_violations:
        huge_inputs(chk, rng)
    if chk.tier == "thorough":
        exhaustive(chk, 6, 3)
    else:
        exhaustive(chk, 4, 3)
    minimise(chk)
    lc = None
    if chk.tier == "thorough":      # both property modules
        lcs = [common.leanchecker(m) for m in ("C01", "C01Arr", "C01Key", "C01Cnt")]
        lc = (all(x[0] for x in lcs), "".join(x[1] for x in lcs))
    chk.assumptions += [
        "IEEE rounding of the single division (cum_decoys+1)/cum_targets is reproduced with the same numpy "
        "primitive (np.divide into a float32 out-array); the model works over exact rationals",
        "np.argsort / np.unique / cumsum behave as documented; numba executes _fdr2qvalue as written",
        "scores are finite and exactly representable in their dtype (integers, dyadic rationals); integer scores "
        "stay below 2^53 in magnitude (tdc casts integer dtypes to float64, larger values would merge)",
        "_fdr2qvalue is driven directly only on arrays satisfying its contract (one length, cumulative num_total, "
        "group sizes >= 1 covering the arrays)",
        "integer scores whose float64 cast (model f64OfInt, compared with numpy's cast on every integer case) merges "
        "two distinct scores are outside 'small-integer dtype': there the code is compared with the model of the "
        "entry only (correspondence), nothing is claimed about the formula; the same integers in a pandas Series reach "
        "tdc as float64 and are compared with the formula on the integers as a correspondence",
        "inputs with more than 2^24 targets are given as a histogram and expanded with np.repeat; their expected values "
        "come from the histogram (int64 arithmetic, and the model op qblocks), never row by row; more than 2^24 decoys "
        "are generated in the thorough tier and on odd seeds of the quick tier only",
        "inputs longer than 5000 rows are compared with the Python restatement of the formula only (the restatement "
        "is checked against the driver's qSpec on every short case of the run); the threaded calls are a test without "
        "false alarms, not a proof of re-entrancy (the schedule is the operating system's)",
    ]
    chk.finish(build, RULE, search=search, lc=lc,
               trusted_extra=["numpy argsort/unique/cumsum/divide, numba njit"])


def replay(chk, path):
    info = json.loads(open(path).read())
    if "vcase" in info:
        common.build_and_audit("C01")
        eval_vcases(chk, [vfrom_json(info["vcase"])])
        for sig, i in chk.spec_violations:
            print("REPRODUCED", sig, json.dumps(i)[:1500])
        return 1 if chk.spec_violations else 0
    if "session" in info:
        common.build_and_audit("C01")
        eval_sessions(chk, [sfrom_json(info["session"])])
        for sig, i in chk.spec_violations:
            print("REPRODUCED", sig, json.dumps(i)[:1500])
        return 1 if chk.spec_violations else 0
    if "hcase" in info:
        common.build_and_audit("C01")
        eval_huge(chk, [dict(info["hcase"])])
        for sig, i in chk.spec_violations:
            print("REPRODUCED", sig, json.dumps({k: v for k, v in i.items() if k != "hcase"})[:1500])
        return 1 if chk.spec_violations else 0
    if "lcase" in info:
        common.build_and_audit("C01")
        c = lfrom_json(info["lcase"])
        if info.get("summary", {}).get("threads"):
            print("concurrent case: the input is replayed sequentially (the schedule is not reproducible)")
        eval_large(chk, [c])
        for sig, i in chk.spec_violations:
            print("REPRODUCED", sig, json.dumps({k: v for k, v in i.items() if k != "lcase"})[:1500])
        return 1 if chk.spec_violations else 0
    if "case" not in info:
        print(json.dumps(info, indent=1)[:3000])
        return 0
    common.build_and_audit("C01")
    c = from_json(info["case"])
    eval_cases(chk, [c], None)
    for sig, i in chk.spec_violations:
        print("REPRODUCED", sig, json.dumps(i)[:1500])
    return 1 if chk.spec_violations else 0
