"""C01 — TDC q-values equal the defining formula (correspondence harness)."""
from __future__ import annotations

import itertools
import json
from fractions import Fraction

import numpy as np
import pandas as pd

import common
from common import Atom, a_int, a_rat, deep, dec, req

RULE = (
    "cases = (score vector from a small value pool so ties are frequent, label vector, direction, dtype, "
    "label encoding, entry point); distinct = distinct (weak ordering pattern, labels, direction); "
    "non-trivial = at least one tie or at least one decoy above a target; thorough adds the exhaustive sweep "
    "over all weak orderings x labellings for n <= 6 (3 score values) and both directions"
)


def rounded(q: Fraction) -> float:
    """the float the code stores for (D+1)/T: np.divide of int arrays into a float32 out-array"""
    out = np.ones(1, dtype=np.float32)
    np.divide(np.array([q.numerator]), np.array([q.denominator]), out=out)
    return float(out[0])


def impl_tdc(scores, labels, desc, entry):
    import mokapot.qvalues as Q

    if entry == "tdc":
        return Q.tdc(scores, labels, desc=desc)
    if entry == "tdc-default-direction":       # documented default: higher scores are better
        assert desc
        return Q.tdc(scores, labels)
    if entry == "qvalues_from_scores":
        assert desc
        return Q.qvalues_from_scores(scores, labels, "tdc")
    raise AssertionError(entry)


def impl_labels(scores, targets, thr, desc, entry):
    import mokapot.dataset as D

    if entry == "_update_labels":
        return D._update_labels(scores, targets, thr, desc)
    if entry == "_update_labels-default-direction":
        assert desc
        return D._update_labels(scores, targets, thr)
    if entry == "_update_labels-series":      # feature columns arrive as pandas Series
        return D._update_labels(pd.Series(np.asarray(scores, dtype=float)), pd.Series(np.asarray(targets, dtype=bool)),
                                thr, desc)
    if entry == "LinearPsmDataset-column":
        df = pd.DataFrame({"t": targets, "spec": np.arange(len(scores)),
                           "pep": [f"P{i}" for i in range(len(scores))], "f": np.asarray(scores, dtype=float)})
        ds = D.LinearPsmDataset(df, target_column="t", spectrum_columns="spec", peptide_column="pep",
                                enforce_checks=False)
        return ds._update_labels(ds.data.loc[:, "f"], thr, desc)
    if entry == "LinearPsmDataset":
        df = pd.DataFrame(
            {
                "t": targets,
                "spec": np.arange(len(scores)),
                "pep": [f"P{i}" for i in range(len(scores))],
                "f": np.asarray(scores, dtype=float),
            }
        )
        ds = D.LinearPsmDataset(
            df, target_column="t", spectrum_columns="spec", peptide_column="pep", enforce_checks=False
        )
        return ds._update_labels(np.asarray(scores, dtype=float), thr, desc)
    raise AssertionError(entry)


SCORE_DTYPES = ["float64", "float64", "float32", "int8", "uint8", "int64"]
LABEL_KINDS = ["bool", "int01", "float01"]


def gen_case(rng, nmax):
    n = rng.choice([1, 1, 2, 2, 3, 4, 5, 6, 8, 10, 15, 20, 30, 45, 60])
    n = min(n, nmax)
    pool = rng.randint(1, max(1, n))
    sdt = rng.choice(SCORE_DTYPES)
    if sdt == "uint8":
        vals = rng.sample(range(0, 200), pool)
    elif sdt in ("int8", "int64"):
        vals = rng.sample(range(-100, 100), pool)
    elif sdt == "float64" and rng.random() < 0.6:
        # distinct float64 values that collapse to one float32 value (near-ties must stay distinct)
        base = [Fraction(rng.randint(-40, 40), rng.choice([1, 2, 4])) for _ in range(max(1, pool // 3 + 1))]
        vals = [b + Fraction(k, 2 ** 30) for b in base for k in range(3)][:max(pool, 1)]
    else:
        # dyadic rationals: exactly representable in float32 and float64
        vals = [Fraction(rng.randint(-4000, 4000), rng.choice([1, 2, 4, 8, 16])) for _ in range(pool)]
    scores = [rng.choice(vals) for _ in range(n)]
    pat = rng.choice(["mixed", "mixed", "mixed", "all_target", "all_decoy", "decoy_top", "target_top"])
    if pat == "mixed":
        p = rng.choice([0.2, 0.5, 0.8])
        labels = [rng.random() < p for _ in range(n)]
    elif pat == "all_target":
        labels = [True] * n
    elif pat == "all_decoy":
        labels = [False] * n
    else:
        order = sorted(range(n), key=lambda i: scores[i], reverse=True)
        k = rng.randint(0, n)
        labels = [None] * n
        for r, i in enumerate(order):
            labels[i] = (r >= k) if pat == "decoy_top" else (r < k)
    desc = rng.random() < 0.5
    lk = rng.choice(LABEL_KINDS)
    return dict(scores=scores, labels=labels, desc=desc, sdtype=sdt, lkind=lk, pat=pat)


def gen_eps_case(rng):
    """k targets a hair (distinct in float64, equal in float32) above a decoy: the targets' q-value is
    (0+1)/k only if the near-tie is respected; rounding the scores to single precision merges them with the decoy"""
    k = rng.randint(2, 8)
    base = Fraction(rng.randint(-50, 50), rng.choice([1, 2, 4]))
    eps = Fraction(1, 2 ** rng.choice([28, 30, 33]))
    scores = [base + eps * (i + 1) for i in range(k)] + [base]
    labels = [True] * k + [False]
    for _ in range(rng.randint(0, 4)):
        scores.append(base - rng.randint(1, 9))
        labels.append(rng.random() < 0.5)
    order = list(range(len(scores)))
    rng.shuffle(order)
    desc = rng.random() < 0.5
    if not desc:
        scores = [-x for x in scores]
    return dict(scores=[scores[i] for i in order], labels=[labels[i] for i in order], desc=desc, sdtype="float64",
                lkind="bool", pat="eps-above-decoy")


def to_arrays(case):
    s = np.array([float(x) for x in case["scores"]], dtype=case["sdtype"])
    lab = case["labels"]
    if case["lkind"] == "bool":
        t = np.array(lab, dtype=bool)
    elif case["lkind"] == "int01":
        t = np.array([1 if b else 0 for b in lab], dtype=np.int64)
    else:
        t = np.array([1.0 if b else 0.0 for b in lab], dtype=np.float64)
    return s, t


def pattern_key(case):
    vals = sorted(set(case["scores"]))
    rk = tuple(vals.index(s) for s in case["scores"])
    return (rk, tuple(case["labels"]), case["desc"])


def nontrivial(case):
    s, l = case["scores"], case["labels"]
    if len(set(s)) < len(s):
        return True
    best_first = sorted(zip(s, l), key=lambda x: x[0], reverse=case["desc"])
    seen_decoy = False
    for _, lab in best_first:
        if not lab:
            seen_decoy = True
        elif seen_decoy:
            return True
    return False


def wire_psms(case):
    return [[Fraction(x), bool(l)] for x, l in zip(case["scores"], case["labels"])]


def eval_cases(chk, cases, entries_q, with_labels=True):
    """run impl and model on `cases`; classify disagreements"""
    lines = []
    for c in cases:
        ps = wire_psms(c)
        lines.append(req("tdc", c["desc"], ps))
        lines.append(req("qspec", c["desc"], ps))
        lines.append(req("labels", c["desc"], c["thr"], ps))
    resp = common.driver_batch(lines)
    for k, c in enumerate(cases):
        m = deep(a_rat, dec(resp[3 * k]))
        sp = deep(a_rat, dec(resp[3 * k + 1]))
        ml = deep(a_int, dec(resp[3 * k + 2]))
        s, t = to_arrays(c)
        entry = c["entry"]
        try:
            q = np.asarray(impl_tdc(s, t, c["desc"], entry), dtype=float)
        except Exception as e:  # the property promises a value for every n >= 1
            chk.spec_violation(
                "exception:" + type(e).__name__, dict(case=jsonable(c), error=repr(e), clause="tdc raised")
            )
            continue
        chk.case(None, pattern_key(c) if nontrivial(c) else None,
                 sample=dict(scores=[str(x) for x in c["scores"]], labels=c["labels"], desc=c["desc"],
                             impl=[float(x) for x in q], model=[str(x) for x in m]))
        chk.count("n", min(len(s), 64) if len(s) < 10 else (len(s) // 10) * 10)
        chk.count("sdtype", c["sdtype"])
        chk.count("lkind", c["lkind"])
        chk.count("entry", entry)
        chk.count("desc", c["desc"])
        chk.count("pattern", c["pat"])
        chk.count("ties", len(set(c["scores"])) < len(c["scores"]))
        exp_spec = [rounded(x) for x in sp]
        exp_model = [rounded(x) for x in m]
        got = [float(x) for x in q]
        spec_ok = len(got) == len(exp_spec) and all(a == b for a, b in zip(got, exp_spec))
        model_ok = len(got) == len(exp_model) and all(a == b for a, b in zip(got, exp_model))
        if not spec_ok:
            chk.spec_violation(
                f"qvalue-formula:{entry}",
                dict(case=jsonable(c), impl=got, expected=[str(x) for x in sp],
                     clause="q-value differs from the defining formula"),
            )
        elif not model_ok:
            chk.corr_break("tdc", dict(case=jsonable(c), impl=got, model=[str(x) for x in m]))
        if not with_labels:
            continue
        # labels
        thr = float(c["thr"])
        boundary = any((rounded(x) > thr) != (x > c["thr"]) for x in sp)
        if boundary:
            chk.float_boundary += 1
            continue
        lentry = c["lentry"]
        try:
            lab = impl_labels(s if lentry == "_update_labels" else s, np.array(c["labels"], dtype=bool), thr,
                              c["desc"], lentry)
        except Exception as e:
            chk.spec_violation("exception-labels:" + type(e).__name__,
                               dict(case=jsonable(c), error=repr(e), clause="_update_labels raised"))
            continue
        chk.count("lentry", lentry)
        lab = [int(x) for x in lab]
        exp = [(-1 if not l else (1 if x <= c["thr"] else 0)) for l, x in zip(c["labels"], sp)]
        if lab != exp:
            chk.spec_violation(
                f"labels:{lentry}",
                dict(case=jsonable(c), impl=lab, expected=exp, clause="training labels differ from spec"),
            )
        elif lab != ml:
            chk.corr_break("labels", dict(case=jsonable(c), impl=lab, model=ml))


def jsonable(c):
    d = dict(c)
    d["scores"] = [str(x) for x in c["scores"]]
    d["thr"] = str(c.get("thr"))
    return d


def from_json(d):
    c = dict(d)
    c["scores"] = [Fraction(x) for x in d["scores"]]
    c["thr"] = Fraction(d["thr"])
    return c


def decorate(rng, c):
    c["thr"] = Fraction(rng.choice([0.01, 0.05, 0.1, 0.25, 0.5, 0.75, 1.0, 0.3]))
    c["entry"] = "qvalues_from_scores" if (c["desc"] and rng.random() < 0.3) else "tdc"
    if c["desc"] and c["entry"] == "tdc" and rng.random() < 0.25:
        c["entry"] = "tdc-default-direction"
    c["lentry"] = rng.choice(["_update_labels", "LinearPsmDataset", "_update_labels-series", "LinearPsmDataset-column"])
    if c["lentry"] == "_update_labels" and c["desc"] and rng.random() < 0.3:
        c["lentry"] = "_update_labels-default-direction"
    if c["lentry"].startswith("_update_labels") and c["lentry"] != "_update_labels-series" and c["sdtype"] not in ("float64",):
        # typeguard on `_update_labels` wants float arrays; integer/float32 score dtypes go through tdc only
        pass
    return c


def malformed(chk, rng, n):
    """label arrays outside {0,1} must be rejected (ValueError); model: declabels"""
    import mokapot.qvalues as Q

    lines, cases = [], []
    for _ in range(n):
        k = rng.randint(1, 8)
        kind = rng.choice(["int", "float"])
        vals = [rng.choice([0, 1, 1, 0, 2, -1, 3]) for _ in range(k)]
        if kind == "float":
            vals = [Fraction(v) if rng.random() < 0.8 else Fraction(1, 2) for v in vals]
        cases.append((kind, vals))
        lines.append(req("declabels", Atom(kind), vals))
    resp = common.driver_batch(lines)
    for (kind, vals), r in zip(cases, resp):
        arr = np.array([float(v) for v in vals], dtype=np.int64 if kind == "int" else np.float64)
        try:
            Q.tdc(np.arange(len(vals), dtype=float), arr)
            got = "ok"
        except ValueError:
            got = "reject-value"
        except Exception as e:
            got = "other:" + type(e).__name__
        exp = "reject-value" if r.strip() == "reject-value" else "ok"
        ok_spec = (got == "reject-value") == (not all(v in (0, 1) for v in vals))
        chk.case(None, ("malformed", kind, tuple(vals)))
        chk.count("malformed", got)
        if not ok_spec:
            chk.spec_violation("label-decoding", dict(kind=kind, labels=[str(v) for v in vals], impl=got,
                                                      clause="non-0/1 labels accepted or 0/1 labels rejected"))
        elif got != exp:
            chk.corr_break("declabels", dict(kind=kind, labels=[str(v) for v in vals], impl=got, model=exp))


def exhaustive(chk, nmax, nvals):
    cases = []
    for n in range(1, nmax + 1):
        for sc in itertools.product(range(nvals), repeat=n):
            # canonical weak orderings only up to value renaming is not needed: small enough
            for lab in itertools.product([False, True], repeat=n):
                for desc in (True, False):
                    cases.append(dict(scores=[Fraction(x) for x in sc], labels=list(lab), desc=desc,
                                      sdtype="float64", lkind="bool", pat="exhaustive",
                                      thr=Fraction(1, 2), entry="tdc", lentry="_update_labels"))
    for i in range(0, len(cases), 20000):
        eval_cases(chk, cases[i:i + 20000], None, with_labels=(i % 3 == 0))
    chk.extra["exhaustive_sweep"] = f"all score vectors over {nvals} values x labellings x directions, n<={nmax}: {len(cases)} cases"


def corpus_cases():
    p = common.VERIF / "harness" / "corpus" / "C01.json"
    if p.exists():
        return [from_json(d) for d in json.loads(p.read_text())]
    return []


def search(chk):
    """failing-input search used when a proof or the correspondence is broken"""
    rng = chk.rng
    cases = [decorate(rng, gen_case(rng, 12)) for _ in range(3000)]
    eval_cases(chk, cases, None)
    if not chk.spec_violations:
        exhaustive(chk, 5, 3)


def minimise(chk):
    """shrink the first spec violation to a minimal row set"""
    if not chk.spec_violations:
        return
    sig, info = chk.spec_violations[0]
    if "case" not in info or not sig.startswith(("qvalue-formula", "labels")):
        return
    c0 = from_json(info["case"])
    rows = list(zip(c0["scores"], c0["labels"]))

    def fails(rs):
        sub = common.Check(chk.prop, chk.tier, chk.seed)
        c = dict(c0, scores=[r[0] for r in rs], labels=[r[1] for r in rs])
        try:
            eval_cases(sub, [c], None)
        except Exception:
            return False
        return any(s == sig for s, _ in sub.spec_violations)

    small = common.shrink_list(rows, fails)
    sub = common.Check(chk.prop, chk.tier, chk.seed)
    eval_cases(sub, [dict(c0, scores=[r[0] for r in small], labels=[r[1] for r in small])], None)
    for s, i in sub.spec_violations:
        if s == sig:
            chk.spec_violations[0] = (s, dict(i, shrunk_from_rows=len(rows)))
            break


def main(chk, args):
    build = common.build_and_audit("C01")
    if not build.driver_ok:
        chk.finish(build, RULE)
    rng = chk.rng
    cases = corpus_cases()
    n = 600 if chk.tier == "quick" else 6000
    cases += [decorate(rng, gen_case(rng, 60)) for _ in range(n)]
    for _ in range(n // 6):
        c = decorate(rng, gen_eps_case(rng))
        k = sum(c["labels"][i] for i in range(len(c["labels"])))
        c["thr"] = Fraction(rng.choice([0.3, 0.5, 0.6, 0.75]))
        cases.append(c)
    eval_cases(chk, cases, None)
    malformed(chk, rng, 100 if chk.tier == "quick" else 1000)
    if chk.tier == "thorough":
        exhaustive(chk, 6, 3)
    else:
        exhaustive(chk, 4, 3)
    minimise(chk)
    lc = common.leanchecker("C01") if chk.tier == "thorough" else None
    chk.assumptions += [
        "IEEE rounding of the single division (cum_decoys+1)/cum_targets is reproduced with the same numpy "
        "primitive (np.divide into a float32 out-array); the model works over exact rationals",
        "np.argsort / np.unique / cumsum behave as documented; numba executes _fdr2qvalue as written",
        "scores are finite and exactly representable in their dtype (integers, dyadic rationals)",
    ]
    chk.finish(build, RULE, search=search, lc=lc,
               trusted_extra=["numpy argsort/unique/cumsum/divide, numba njit"])


def replay(chk, path):
    info = json.loads(open(path).read())
    if "case" not in info:
        print(json.dumps(info, indent=1)[:3000])
        return 0
    common.build_and_audit("C01")
    c = from_json(info["case"])
    eval_cases(chk, [c], None)
    for sig, i in chk.spec_violations:
        print("REPRODUCED", sig, json.dumps(i)[:1500])
    return 1 if chk.spec_violations else 0
