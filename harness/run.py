"""Entry point: ./check Cxx [--tier quick|thorough] [--replay file]"""
import argparse
import importlib
import os
import signal
import sys
from pathlib import Path

sys.path.insert(0, str(Path(__file__).resolve().parent))


def main():
    ap = argparse.ArgumentParser()
    ap.add_argument("prop")
    ap.add_argument("--tier", default=os.environ.get("VERIF_TIER", "quick"), choices=["quick", "thorough"])
    ap.add_argument("--replay", default=None)
    ap.add_argument("--no-build", action="store_true", help="debug: skip lake build/audit")
    args = ap.parse_args()
    seed = int(os.environ.get("VERIF_SEED", "0"))
    limit = int(os.environ.get("VERIF_TIMEOUT", "1500" if args.tier == "quick" else "7200"))

    def on_alarm(signum, frame):
        print(f"TIMEOUT after {limit}s", file=sys.stderr)
        os._exit(2)

    signal.signal(signal.SIGALRM, on_alarm)
    signal.alarm(limit)
    import common

    mod = importlib.import_module(args.prop.lower())
    chk = common.Check(args.prop, args.tier, seed)
    if args.replay:
        sys.exit(mod.replay(chk, args.replay))
    try:
        mod.main(chk, args)
    except SystemExit:
        raise
    except Exception:
        import traceback

        traceback.print_exc()
        print("framework error (not a verdict)", file=sys.stderr)
        sys.exit(2)


if __name__ == "__main__":
    main()
