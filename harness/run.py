"""Entry point: ./check Cxx [--tier quick|thorough] [--replay file]"""
import argparse
import importlib
import os
import signal
import sys
from pathlib import Path

sys.path.insert(0, str(Path(__file__).resolve().parent))


def main():
    ap = argparse.ArgumentParser()
    ap.add_argument("prop")
    ap.add_argument("--tier", default=os.environ.get("VERIF_TIER", "quick"), choices=["quick", "thorough"])
    ap.add_argument("--replay", default=None)
    ap.add_argument("--no-build", action="store_true", help="debug: skip lake build/audit")
    args = ap.parse_args()
    seed = int(os.environ.get("VERIF_SEED", "0"))
    limit = int(os.environ.get("VERIF_TIMEOUT", "1500" if args.tier == "quick" else "7200"))

    def on_alarm(signum, frame):
        print(f"TIMEOUT after {limit}s", file=sys.stderr)
        os._exit(2)

    signal.signal(signal.SIGALRM, on_alarm)
    signal.alarm(limit)
    import common

    mod = importlib.import_module(args.prop.lower())
    chk = common.Check(args.prop, args.tier, seed)
    if args.replay:
        sys.exit(mod.replay(chk, args.replay))
    try:
        mod.main(chk, args)
    except SystemExit:
        raise
    except Exception as e:
        import traceback

        traceback.print_exc()
        # An exception that comes out of the code under test (a frame inside $MOKAPOT_REPO/mokapot) at a point
        # where the harness expects none: on the reviewed tree this does not happen, so the correspondence
        # between the real code and the model no longer checks.  Verdict rule: report it (the replay names the
        # harness stage and the traceback); we have no concrete input in hand at this level.
        repo = os.path.realpath(os.environ.get("MOKAPOT_REPO", "/repo")) + os.sep + "mokapot" + os.sep
        frames = traceback.extract_tb(e.__traceback__)
        inside = [f for f in frames if os.path.realpath(f.filename).startswith(repo)]
        if not inside:
            print("framework error (not a verdict)", file=sys.stderr)
            sys.exit(2)
        harness_frames = [f for f in frames if os.sep + "harness" + os.sep in f.filename]
        chk.corr_break("implementation-raised", dict(
            exception=f"{type(e).__name__}: {str(e)[:300]}",
            raised_at=f"{inside[-1].filename}:{inside[-1].lineno} in {inside[-1].name}",
            harness_stage=(f"{harness_frames[-1].filename}:{harness_frames[-1].lineno} in {harness_frames[-1].name}"
                           if harness_frames else "?"),
            traceback="".join(traceback.format_exception(type(e), e, e.__traceback__))[-3000:],
            note="the real code raised where the harness, on the reviewed tree, gets a result"))
        chk.finish(common.build_and_audit(args.prop),
                   "correspondence: the real code must not raise where the reviewed tree returned a result")


if __name__ == "__main__":
    main()
