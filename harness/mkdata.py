"""Generators of PSM tables (PIN text / Parquet) shared by the pipeline-level harnesses."""
from __future__ import annotations

from pathlib import Path

import numpy as np
import pandas as pd


def make_psm_table(
    rng,
    n_spectra=60,
    max_per_spectrum=3,
    n_feat=3,
    label_enc="pm1",          # "pm1" (1/-1), "01" (1/0), "bool"
    optional=("ExpMass",),     # subset of ("filename", "ExpMass", "CalcMass", "ret_time", "charge")
    level_cols=(),             # subset of ("ModifiedPeptide", "Precursor", "PeptideGroup")
    n_peptides=None,
    integer_scores=True,
    target_frac=0.5,
    signal=2.0,
    tie_free=True,
    rowid=True,
    letter_peptides=False,
    good_feats=(0,),
):
    """rows: one per PSM; `rng` is a random.Random. Returns a DataFrame in PIN column order."""
    rows = []
    n_peptides = n_peptides or max(3, n_spectra // 2)
    rid = 0
    used = set()
    for s in range(n_spectra):
        k = rng.randint(1, max_per_spectrum)
        for j in range(k):
            target = rng.random() < target_frac
            good = target and rng.random() < 0.6
            feats = []
            for f in range(n_feat):
                base = rng.gauss(signal if (good and f in good_feats) else 0.0, 1.0)
                v = round(base * 64) if integer_scores else base
                feats.append(v)
            if tie_free and integer_scores:
                # distinct values: the row id lives in the low bits (still exact in float64/text)
                feats = [v * 4096 + rid for v in feats]
            pep = rng.randrange(n_peptides)
            if letter_peptides:
                core = pep_letters(pep)
                pname = core + "K" if target else core[::-1] + "K"
            rows.append(
                dict(
                    SpecId=f"{'t' if target else 'd'}_{s}_{j}",
                    Label=target,
                    ScanNr=1000 + s,
                    filename=f"run{s % 2}.mzML",
                    ExpMass=500 + s,          # integer valued: exact in text and parquet
                    CalcMass=500 + s,
                    ret_time=10 + s,
                    charge=2 + (s % 2),
                    rowid=rid,
                    **{f"feat{f}": feats[f] for f in range(n_feat)},
                    Peptide=pname if letter_peptides else ("" if target else "decoy_") + f"PEP{pep}K",
                    ModifiedPeptide=("" if target else "decoy_") + f"PEP{pep}K[{pep % 2}]",
                    Precursor=("" if target else "decoy_") + f"PEP{pep}K/{2 + (s % 2)}",
                    PeptideGroup=("" if target else "decoy_") + f"G{pep // 2}",
                    Proteins=("" if target else "decoy_") + f"PROT{pep % 7}",
                )
            )
            rid += 1
    df = pd.DataFrame(rows)
    cols = ["SpecId", "Label", "ScanNr"]
    cols += [c for c in ("filename", "ExpMass", "CalcMass", "ret_time", "charge") if c in optional]
    if rowid:
        cols += ["rowid"]
    cols += [f"feat{f}" for f in range(n_feat)]
    cols += ["Peptide"] + [c for c in ("ModifiedPeptide", "Precursor", "PeptideGroup") if c in level_cols]
    cols += ["Proteins"]
    df = df[cols].copy()
    if label_enc == "pm1":
        df["Label"] = np.where(df["Label"], 1, -1)
    elif label_enc == "01":
        df["Label"] = np.where(df["Label"], 1, 0)
    elif label_enc == "bool":
        df["Label"] = df["Label"].astype(bool)
    return df


def pep_letters(pep: int) -> str:
    """letters-only peptide core for peptide number `pep` (no K/R inside, so trypsin cleaves only after the final K).
    Peptides 6c..6c+5 are the six arrangements of one letter triple: equal amino-acid composition, which is what
    the decoy/target pairing of the target-only-FASTA path keys on (its result must not depend on hash order)"""
    import itertools

    letters = "ACDEFGHILM"
    combos = list(itertools.combinations(letters, 3))
    tri = combos[(pep // 6) % len(combos)]
    arr = list(itertools.permutations(tri))[pep % 6]
    return "NQ" + "".join(arr) + "ST"


def make_fasta(n_peptides: int, n_proteins: int, path, shared_every=5):
    """target-only FASTA whose tryptic peptides are the letter peptides 0..n_peptides-1; every `shared_every`-th
    peptide occurs in two proteins (shared), proteins get 2+ peptides each"""
    prots = {j: [] for j in range(n_proteins)}
    for p in range(n_peptides):
        prots[p % n_proteins].append(p)
        if shared_every and p % shared_every == 0:
            prots[(p + 1) % n_proteins].append(p)
    lines = []
    for j, peps in prots.items():
        seq = "".join(pep_letters(p) + "K" for p in peps) + "WWWWWWK"
        lines.append(f">sp|PROT{j}|test protein {j}\n{seq}\n")
    Path(path).write_text("".join(lines))
    return path


def write_table(df: pd.DataFrame, path: Path, row_group_size=None):
    path = Path(path)
    if path.suffix == ".parquet":
        import pyarrow as pa
        import pyarrow.parquet as pq

        pq.write_table(pa.Table.from_pandas(df, preserve_index=False), path,
                       row_group_size=row_group_size or max(1, len(df)))
    else:
        df.to_csv(path, sep="\t", index=False)
    return path


def read_dataset(path, max_workers=1, **kw):
    import mokapot

    return mokapot.read_pin(Path(path), max_workers=max_workers, **kw)[0]
